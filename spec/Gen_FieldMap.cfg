
