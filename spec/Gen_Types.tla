------------------------------ MODULE Gen_Types ------------------------------
(***************************************************************************)
(* C06: files whose records have arbitrary, mixed types (every sequence of *)
(* at most two of the 14 type codes, and every a, a, b), generated with    *)
(* the TLA+ encoder.  The real library reads each file as each of the 13   *)
(* concrete types and generically.                                         *)
(***************************************************************************)
EXTENDS Integers, Sequences, FiniteSets, EsriBytes, EsriTypes, StdTables, TLC, Json, IOUtils, SequencesExt

INSTANCE EsriCodec WITH FXY <- StdXY, FZM <- StdZM, RXY <- StdRXY, RZM <- StdRZM

Pt(t, i) == << ((i * 3) % 7) - 3, ((i * 5) % 7) - 3,
               IF StoresZ(t) THEN (i % 4) - 1 ELSE 0, IF StoresM(t) THEN (i % 3) + 1 ELSE 0 >>
RECURSIVE Pts(_, _, _)
Pts(t, from, n) == IF n = 0 THEN << >> ELSE << Pt(t, from) >> \o Pts(t, from + 1, n - 1)

Shape(t, k) ==
    IF t = 0 THEN NullShapeV
    ELSE LET pts == Pts(t, 3 * k, IF IsPointType(t) THEN 1 ELSE k + 1)
             parts == IF HasParts(t) THEN << pts, Pts(t, 3 * k + 1, 2) >> ELSE << pts >>
         IN  [t |-> t, parts |-> parts,
              kinds |-> IF t = 31 THEN << 0, 5 >> ELSE << >>,
              box |-> IF IsPointType(t) THEN ZeroBox ELSE BoxOfPoints(t, Concat(parts))]

RECURSIVE Recs(_, _)
Recs(ts, k) == IF ts = << >> THEN << >> ELSE EncodeRecord(k, Shape(Head(ts), k)) \o Recs(Tail(ts), k + 1)

RECURSIVE Entries(_, _, _)
Entries(ts, k, off) == IF ts = << >> THEN << >>
                       ELSE LET w == ContentWords(Shape(Head(ts), k))
                            IN  BE32(off) \o BE32(w) \o Entries(Tail(ts), k + 1, off + 4 + w)

\* the same entries listed in REVERSE order (an index need not follow the physical order)
RECURSIVE RevEntries(_, _)
RevEntries(e, n) == IF n = 0 THEN << >> ELSE SubSeq(e, 8 * (n - 1) + 1, 8 * n) \o RevEntries(e, n - 1)

MkFile(ts) ==
    LET rb == Recs(ts, 1)
        t0 == IF ts = << >> THEN 0 ELSE ts[1]
        en == Entries(ts, 1, 50)
    IN  [types |-> ts, shp |-> EncodeHeader(50 + Len(rb) \div 2, t0, ZeroBox) \o rb,
         shx |-> EncodeHeader(50 + 4 * Len(ts), t0, ZeroBox) \o en,
         shxRev |-> EncodeHeader(50 + 4 * Len(ts), t0, ZeroBox) \o RevEntries(en, Len(ts))]

Thorough == IOEnv.SCOPE = "thorough"
TypeSeqs == { << >> } \cup { << a >> : a \in Codes } \cup { << a, b >> : a, b \in Codes }
            \cup { << a, a, b >> : a, b \in Codes }
            \cup (IF Thorough THEN { << a, b, c >> : a, b, c \in Codes } ELSE {})

MetaLine == [ev |-> "meta", exactxy |-> TRUE,
             fxy |-> [k \in {ToString(v) : v \in DOMAIN StdXY} |-> StdXY[CHOOSE v \in DOMAIN StdXY : ToString(v) = k]],
             fzm |-> [k \in {ToString(v) : v \in DOMAIN StdZM} |-> StdZM[CHOOSE v \in DOMAIN StdZM : ToString(v) = k]]]

ASSUME /\ ndJsonSerialize(IOEnv.OUT, << MetaLine >> \o SetToSeq({ MkFile(ts) : ts \in TypeSeqs }))
       /\ PrintT(<< "GENERATED", Cardinality(TypeSeqs) >>)
=============================================================================
