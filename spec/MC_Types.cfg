SPECIFICATION Spec
INVARIANT Inv_Tiling
CHECK_DEADLOCK FALSE
