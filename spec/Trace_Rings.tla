----------------------------- MODULE Trace_Rings -----------------------------
(***************************************************************************)
(* C16: every recorded construction (Polygon*::new, with_rings, polygon!,  *)
(* Multipatch::new / with_parts, multipatch!) against Rings.tla.           *)
(***************************************************************************)
EXTENDS Rings, TLC, Json, IOUtils

Rec  == ndJsonDeserialize(IOEnv.TRACE)
Meta == Rec[1]
Exact == Meta.exactxy

VARIABLE l
Ev(e) == l <= Len(Rec) /\ Rec[l].ev = e /\ l' = l + 1

TReset == Ev("reset")

TRings ==
    /\ Ev("rings")
    /\ LET e == Rec[l]
           I == e.inputs
           O == e.outputs
           R == e.rebuilt
       IN  /\ e.panic = ""
           /\ Len(O) = Len(I)                                       \* no ring lost, none added, order kept
           /\ \A i \in 1..Len(I) : RingOK(I[i].role, I[i].pts, O[i].role, O[i].pts, Exact)
           \* rebuilding from its own rings changes nothing (rings of non-zero area)
           /\ Len(R) = Len(O)
           /\ \A i \in 1..Len(O) : (Exact /\ RArea2(O[i].pts) # 0) => R[i] = O[i]

TPatches ==
    /\ Ev("patches")
    /\ LET e == Rec[l]
           I == e.inputs
           O == e.outputs
       IN  /\ e.panic = ""
           /\ Len(O) = Len(I)
           /\ \A i \in 1..Len(I) : PatchOK(I[i].role, I[i].pts, O[i].role, O[i].pts)

Init == l = 2
Next == TReset \/ TRings \/ TPatches
Spec == Init /\ [][Next]_l

Accepted ==
    LET d == TLCGet("stats").diameter
    IN  IF d = Len(Rec) THEN TRUE
        ELSE /\ PrintT(<< "REJECTED", d + 1, Rec[d + 1].ev >>)
             /\ FALSE
=============================================================================
