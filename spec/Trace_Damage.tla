---------------------------- MODULE Trace_Damage ----------------------------
(***************************************************************************)
(* Trace validation for damaged sources (C13): a valid file written by the *)
(* real writer is truncated at every length / read through a source whose  *)
(* k-th read or seek fails / read through a source that returns fewer      *)
(* bytes than asked.  The reader model of EsriCodec (ReadFile) is          *)
(* evaluated by TLC on the very bytes the real reader was given, and the   *)
(* property's own relation (only genuine shapes, all wholly contained      *)
(* records, then an I/O error) is evaluated on the real outcome.           *)
(***************************************************************************)
EXTENDS Integers, Sequences, FiniteSets, EsriBytes, EsriTypes, TLC, Json, IOUtils

Rec  == ndJsonDeserialize(IOEnv.TRACE)
Meta == Rec[1]
TabXY == [v \in (-8)..8 |-> Meta.fxy[ToString(v)]]
TabZM == [v \in ((-8)..8) \cup {50} |-> Meta.fzm[ToString(v)]]
InvOf(F) == [b \in {F[v] : v \in DOMAIN F} |-> CHOOSE v \in DOMAIN F : F[v] = b]
RevXY == InvOf(TabXY)
RevZM == InvOf(TabZM)

INSTANCE EsriCodec WITH FXY <- TabXY, FZM <- TabZM, RXY <- RevXY, RZM <- RevZM

VARIABLES l, cur
vars == << l, cur >>
Ev(e) == l <= Len(Rec) /\ Rec[l].ev = e /\ l' = l + 1

TFile == Ev("file") /\ cur' = Rec[l]

\* the real items are shapes the file really holds, in order (never invented data)
Genuine(items) ==
    /\ Len(items) <= Len(cur.shapes)
    /\ \A i \in 1..Len(items) : ReadBackRel(cur.shapes[i], items[i], FALSE)

\* number of records wholly contained in the first n bytes of the .shp
RECURSIVE Contained(_, _, _)
Contained(recs, i, n) ==
    IF i > Len(recs) THEN 0
    ELSE IF 2 * recs[i][1] + 8 + 2 * recs[i][2] <= n THEN 1 + Contained(recs, i + 1, n) ELSE 0

TTrunc ==
    /\ Ev("trunc") /\ UNCHANGED cur
    /\ LET e  == Rec[l]
           sb == IF e.which = "shp" THEN SubSeq(cur.shp, 1, e.len) ELSE cur.shp
           xb == IF e.which = "shx" THEN SubSeq(cur.shx, 1, e.len) ELSE cur.shx
           m  == ReadFile(sb, e.withIdx, xb)
           g  == e.res.items
           recs == WalkRecs(cur.shp, 100)
       IN  \* the reader model explains the outcome
           /\ e.res.openErr = m.openErr /\ e.res.err = m.err
           /\ Len(g) = Len(m.items)
           /\ \A i \in 1..Len(g) : SameRead(m.items[i].shape, g[i])
           \* and the outcome is what the property says
           /\ Genuine(g)
           \* opened by path, the same bytes give the same outcome
           /\ ("byPath" \in DOMAIN e) => (e.byPath.items = g /\ e.byPath.err = e.res.err /\ e.byPath.openErr = e.res.openErr)
           /\ e.res.err \in {"", "io"} /\ e.res.openErr \in {"", "io"}
           /\ (e.which = "shp" /\ e.len >= 100) =>
                 /\ e.res.openErr = ""
                 /\ Len(g) = Contained(recs, 1, e.len)            \* all wholly contained records
                 /\ (e.len < Len(cur.shp)) => e.res.err = "io"    \* the cut record is an I/O error
                 /\ (e.len = Len(cur.shp)) => e.res.err = ""
           /\ (e.which = "shp" /\ e.len < 100) => e.res.openErr = "io"
           /\ (e.which = "shx" /\ e.len < Len(cur.shx)) => e.res.openErr = "io"

TSrcFault ==
    /\ Ev("srcfault") /\ UNCHANGED cur
    /\ LET e == Rec[l]
           g == e.res.items
       IN  /\ Genuine(g)
           \* the injected failure is returned by the call during which it happened
           /\ e.fired => (e.res.openErr = "io_injected" \/ e.res.err = "io_injected")
           /\ ~e.fired => (e.res.openErr = "" /\ e.res.err = "" /\ Len(g) = Len(cur.shapes))

TShortRead ==
    /\ Ev("shortread") /\ UNCHANGED cur
    /\ LET e == Rec[l]
           g == e.res.items
       IN  /\ e.res.openErr = "" /\ e.res.err = ""
           /\ Len(g) = Len(cur.shapes) /\ Genuine(g)

Init == l = 2 /\ cur = [shp |-> << >>, shx |-> << >>, shapes |-> << >>]
Next == TFile \/ TTrunc \/ TSrcFault \/ TShortRead
Spec == Init /\ [][Next]_vars

Accepted ==
    LET d == TLCGet("stats").diameter
    IN  IF d = Len(Rec) THEN TRUE
        ELSE /\ PrintT(<< "REJECTED", d + 1, Rec[d + 1].ev >>)
             /\ FALSE
=============================================================================
