----------------------------- MODULE EsriCodec -----------------------------
(***************************************************************************)
(* One statement of the ESRI shapefile layout (whitepaper, July 1998):     *)
(*   - abstract shapes over value ids,                                     *)
(*   - the reference encoder (what a conformant writer emits, plus the     *)
(*     optional layouts a foreign writer may emit),                        *)
(*   - the strict validator/decoder "from the whitepaper" (StrictShp),     *)
(*   - the reader model (what a conformant reader returns for a byte       *)
(*     string: ReadAt / ReadFile).                                         *)
(*                                                                         *)
(* Floating-point values never enter the specification.  The library only  *)
(* compares coordinates, so a coordinate is a VALUE ID (a small integer    *)
(* whose order is the order of the doubles it stands for), and the eight   *)
(* bytes of an id come from the tables FXY (X and Y) and FZM (Z and M),    *)
(* which a configuration supplies: synthetic in the model-checking         *)
(* configurations, the bytes of the doubles the harness really used in     *)
(* trace validation.                                                       *)
(*                                                                         *)
(* A point is a 4-tuple <<x, y, z, m>> (unused dimensions are 0).          *)
(* A shape is [t, parts, kinds, box]:                                      *)
(*   t      type code                                                      *)
(*   parts  sequence of sequences of points (a single point: << <<p>> >>;  *)
(*          a multipoint: << points >>; the null shape: << >>)             *)
(*   kinds  multipatch: one patch kind 0..5 per part; polygon: one ring    *)
(*          role per ring (0 outer, 1 inner); otherwise << >>              *)
(*   box    <<xmin, ymin, xmax, ymax, zmin, zmax, mmin, mmax>>             *)
(*          (all 0 for single points and the null shape)                   *)
(***************************************************************************)
EXTENDS Integers, Sequences, FiniteSets, EsriBytes, EsriTypes

CONSTANTS FXY,      \* function: value id -> <<8 bytes>> for X and Y
          FZM,      \* function: value id -> <<8 bytes>> for Z and M
          RXY,      \* the inverse of FXY (a function on the set of byte tuples); it is a
          RZM       \* constant so that TLC evaluates it once (see InverseOf)

\* what RXY and RZM must be instantiated with
InverseOf(F) == [b \in {F[v] : v \in DOMAIN F} |-> CHOOSE v \in DOMAIN F : F[v] = b]

NaNV    == 50       \* the id of "a NaN" (Z and M only)
Garbage == 99       \* eight bytes that are no value of the case at hand
ND      == -5       \* the id whose FZM bytes are the NO_DATA constant (-10e38)

IsNoDataV(v) == v # NaNV /\ v <= ND
\* what a reader reports for a stored measure of a multi-vertex shape
NormM(v) == IF v = NaNV \/ v <= ND THEN ND ELSE v

ZeroBox == << 0, 0, 0, 0, 0, 0, 0, 0 >>
NullShapeV == [t |-> 0, parts |-> << >>, kinds |-> << >>, box |-> ZeroBox]

AllPoints(s) == Concat(s.parts)
PartLens(ps) == [i \in 1..Len(ps) |-> Len(ps[i])]
NumPoints(s) == SumSeq(PartLens(s.parts))

(***************************************************************************)
(* Extremes by rank (C05).  NaN is outside the domain of the box claims.   *)
(***************************************************************************)
RECURSIVE MinR(_, _, _, _)
MinR(ps, d, lo, hi) == IF hi = lo THEN ps[lo][d]
                       ELSE LET mid == (lo + hi) \div 2 IN Min2(MinR(ps, d, lo, mid), MinR(ps, d, mid + 1, hi))
RECURSIVE MaxR(_, _, _, _)
MaxR(ps, d, lo, hi) == IF hi = lo THEN ps[lo][d]
                       ELSE LET mid == (lo + hi) \div 2 IN Max2(MaxR(ps, d, lo, mid), MaxR(ps, d, mid + 1, hi))
MinD(ps, d) == MinR(ps, d, 1, Len(ps))
MaxD(ps, d) == MaxR(ps, d, 1, Len(ps))

\* the exact box of a multi-vertex shape with at least one vertex
BoxOfPoints(t, ps) ==
    << MinD(ps, 1), MinD(ps, 2), MaxD(ps, 1), MaxD(ps, 2),
       IF StoresZ(t) THEN MinD(ps, 3) ELSE 0, IF StoresZ(t) THEN MaxD(ps, 3) ELSE 0,
       IF StoresM(t) THEN MinD(ps, 4) ELSE 0, IF StoresM(t) THEN MaxD(ps, 4) ELSE 0 >>

HasNaN(ps) == \E i \in 1..Len(ps) : ps[i][3] = NaNV \/ ps[i][4] = NaNV

(***************************************************************************)
(* Sizes (C18).  Content = what follows the 4-byte type code of a record.  *)
(***************************************************************************)
SizeXY(t, np, nq) ==      \* np parts, nq points; without Z and M blocks
    IF HasParts(t) THEN 32 + 4 + 4 + 4 * np + (IF HasKinds(t) THEN 4 * np ELSE 0) + 16 * nq
    ELSE 32 + 4 + 16 * nq
SizeZ(t, nq) == IF StoresZ(t) THEN 16 + 8 * nq ELSE 0
SizeMBlock(nq) == 16 + 8 * nq
SizeNoM(t, np, nq) == SizeXY(t, np, nq) + SizeZ(t, nq)
SizeWithM(t, np, nq) == SizeNoM(t, np, nq) + (IF StoresM(t) THEN SizeMBlock(nq) ELSE 0)

\* the size a conformant writer announces / emits for shape s
ContentSize(s) ==
    CASE s.t = 0  -> 0
      [] s.t = 1  -> 16
      [] s.t = 21 -> 24
      [] s.t = 11 -> 32
      [] OTHER    -> SizeWithM(s.t, Len(s.parts), NumPoints(s))
ContentWords(s) == (ContentSize(s) + 4) \div 2

(***************************************************************************)
(* Reference encoder                                                       *)
(***************************************************************************)
FX(v) == FXY[v]
FZ(v) == FZM[v]

RECURSIVE EncXY(_)
EncXY(ps) == IF ps = << >> THEN << >>
             ELSE FX(Head(ps)[1]) \o FX(Head(ps)[2]) \o EncXY(Tail(ps))
RECURSIVE EncDim(_, _)
EncDim(ps, d) == IF ps = << >> THEN << >> ELSE FZ(Head(ps)[d]) \o EncDim(Tail(ps), d)

RECURSIVE Offsets(_, _)
Offsets(lens, acc) == IF lens = << >> THEN << >>
                      ELSE LE32(acc) \o Offsets(Tail(lens), acc + Head(lens))
RECURSIVE EncKinds(_)
EncKinds(ks) == IF ks = << >> THEN << >> ELSE LE32(Head(ks)) \o EncKinds(Tail(ks))

EncBoxXY(box) == FX(box[1]) \o FX(box[2]) \o FX(box[3]) \o FX(box[4])

\* withM = FALSE leaves the optional M block out (a layout only foreign
\* writers produce; it is legal for the Z and M types and the multipatch)
EncodeContentOpt(s, withM) ==
    LET t   == s.t
        pts == AllPoints(s)
        nq  == Len(pts)
        zb  == IF StoresZ(t) THEN FZ(s.box[5]) \o FZ(s.box[6]) \o EncDim(pts, 3) ELSE << >>
        mb  == IF StoresM(t) /\ withM THEN FZ(s.box[7]) \o FZ(s.box[8]) \o EncDim(pts, 4) ELSE << >>
        p   == pts[1]
    IN  CASE t = 0  -> << >>
          [] t = 1  -> FX(p[1]) \o FX(p[2])
          [] t = 21 -> FX(p[1]) \o FX(p[2]) \o FZ(p[4])
          [] t = 11 -> FX(p[1]) \o FX(p[2]) \o FZ(p[3]) \o (IF withM THEN FZ(p[4]) ELSE << >>)
          [] Family(t) = "multipoint" ->
                EncBoxXY(s.box) \o LE32(nq) \o EncXY(pts) \o zb \o mb
          [] OTHER ->
                EncBoxXY(s.box) \o LE32(Len(s.parts)) \o LE32(nq)
                \o Offsets(PartLens(s.parts), 0)
                \o (IF HasKinds(t) THEN EncKinds(s.kinds) ELSE << >>)
                \o EncXY(pts) \o zb \o mb

EncodeContent(s) == EncodeContentOpt(s, TRUE)

\* a record with an explicit record number and the layout switch
EncodeRecordOpt(num, s, withM) ==
    LET c == EncodeContentOpt(s, withM)
    IN  BE32(num) \o BE32((Len(c) + 4) \div 2) \o LE32(s.t) \o c
EncodeRecord(num, s) == EncodeRecordOpt(num, s, TRUE)

EncodeHeader(lenWords, t, box) ==
    BE32(9994) \o Zeros(20) \o BE32(lenWords) \o LE32(1000) \o LE32(t)
    \o FX(box[1]) \o FX(box[2]) \o FX(box[3]) \o FX(box[4])
    \o FZ(box[5]) \o FZ(box[6]) \o FZ(box[7]) \o FZ(box[8])

RECURSIVE EncodeRecords(_, _)
EncodeRecords(shapes, num) ==
    IF shapes = << >> THEN << >>
    ELSE EncodeRecord(num, Head(shapes)) \o EncodeRecords(Tail(shapes), num + 1)

RECURSIVE IndexEntries(_, _)
IndexEntries(shapes, off) ==
    IF shapes = << >> THEN << >>
    ELSE LET w == ContentWords(Head(shapes))
         IN  BE32(off) \o BE32(w) \o IndexEntries(Tail(shapes), off + 4 + w)

\* what a conformant writer leaves in the .shp / .shx for a file of type t
EncodeShp(t, box, shapes) ==
    LET recs == EncodeRecords(shapes, 1)
    IN  EncodeHeader(50 + Len(recs) \div 2, t, box) \o recs
EncodeShx(t, box, shapes) ==
    EncodeHeader(50 + 4 * Len(shapes), t, box) \o IndexEntries(shapes, 50)

(***************************************************************************)
(* Decoding                                                                *)
(***************************************************************************)
RdX(b, p) == LET s == Slice(b, p, 8) IN IF s \in DOMAIN RXY THEN RXY[s] ELSE Garbage
RdZ(b, p) == LET s == Slice(b, p, 8) IN IF s \in DOMAIN RZM THEN RZM[s] ELSE Garbage

Fail(kind, code, at) ==
    [ok |-> FALSE, err |-> kind, code |-> code, at |-> at, shape |-> NullShapeV, mAbsent |-> FALSE]
Good(s, mAbs) ==
    [ok |-> TRUE, err |-> "", code |-> 0, at |-> 0, shape |-> s, mAbsent |-> mAbs]

\* 32-bit fields n at offsets p, p+4, ...
RECURSIVE RdInts(_, _, _)
RdInts(b, p, n) == IF n <= 0 THEN << >>
                   ELSE IF n = 1 THEN << RdLE(b, p) >>
                   ELSE LET h == n \div 2 IN RdInts(b, p, h) \o RdInts(b, p + 4 * h, n - h)

\* points i..n-1 of a block: xy at pxy, z at pz (or -1), m at pm (-1: none, -2: absent => ND); norm = apply NormM
RdPoint(b, pxy, pz, pm, i, norm) ==
    << RdX(b, pxy + 16 * i), RdX(b, pxy + 16 * i + 8),
       IF pz >= 0 THEN RdZ(b, pz + 8 * i) ELSE 0,
       IF pm = -1 THEN 0
       ELSE IF pm = -2 THEN ND
       ELSE IF norm THEN NormM(RdZ(b, pm + 8 * i)) ELSE RdZ(b, pm + 8 * i) >>
RECURSIVE RdPoints(_, _, _, _, _, _, _)
RdPoints(b, pxy, pz, pm, i, n, norm) ==
    IF i >= n THEN << >>
    ELSE IF n = i + 1 THEN << RdPoint(b, pxy, pz, pm, i, norm) >>
    ELSE LET mid == (i + n) \div 2
         IN  RdPoints(b, pxy, pz, pm, i, mid, norm) \o RdPoints(b, pxy, pz, pm, mid, n, norm)

\* split pts according to offsets offs (ascending, offs[1] = 0) and total n: parts lo..hi
RECURSIVE SplitR(_, _, _, _, _)
SplitR(pts, offs, lo, hi, n) ==
    IF hi < lo THEN << >>
    ELSE IF hi = lo THEN << SubSeq(pts, offs[lo] + 1, IF lo = Len(offs) THEN n ELSE offs[lo + 1]) >>
    ELSE LET mid == (lo + hi) \div 2 IN SplitR(pts, offs, lo, mid, n) \o SplitR(pts, offs, mid + 1, hi, n)
SplitParts(pts, offs, i, n) == SplitR(pts, offs, i, Len(offs), n)

OffsetsConformant(offs, nq) ==
    /\ (Len(offs) > 0 => offs[1] = 0)
    /\ (Len(offs) = 0 => nq = 0)          \* every point belongs to a part
    /\ \A i \in 1..Len(offs) : offs[i] >= 0 /\ offs[i] <= nq
    /\ \A i \in 1..(Len(offs) - 1) : offs[i] <= offs[i + 1]

(***************************************************************************)
(* Ring orientation (C16, C01): twice the signed area with the sign        *)
(* convention of the whitepaper (clockwise = positive = outer ring),       *)
(* computed exactly on the integer ids.  It is only meaningful when the    *)
(* harness concretises X and Y ids as id * 2^k (configuration flag ExactXY *)
(* of the trace), which is what "coordinates for which the shoelace sum is *)
(* exact" means in the properties.                                         *)
(***************************************************************************)
RECURSIVE Area2R(_, _, _)
Area2R(ps, lo, hi) ==      \* edges lo .. hi-1 (edge i joins vertex i and i+1)
    IF hi <= lo THEN 0
    ELSE IF hi = lo + 1 THEN (ps[lo + 1][1] - ps[lo][1]) * (ps[lo + 1][2] + ps[lo][2])
    ELSE LET mid == (lo + hi) \div 2 IN Area2R(ps, lo, mid) + Area2R(ps, mid, hi)
Area2(ps) == Area2R(ps, 1, Len(ps))
\* the role a reader derives from the vertex order (any role when the area is 0)
RoleOK(ps, role) == LET a == Area2(ps) IN (a > 0 => role = Outer) /\ (a < 0 => role = Inner)

(***************************************************************************)
(* Relations between shapes that the properties state.                     *)
(***************************************************************************)
\* C01: what reading back shape o may return (g); exact = X/Y ids are exact
\* dyadic coordinates, so that ring roles are claimed
ReadBackRel(o, g, exact) ==
    /\ g.t = o.t /\ Len(g.parts) = Len(o.parts) /\ g.box = o.box
    /\ (o.t = 31 => g.kinds = o.kinds)
    /\ (Family(o.t) = "polygon" =>
          /\ Len(g.kinds) = Len(o.kinds)
          /\ exact => \A i \in 1..Len(o.parts) :
                         Area2(o.parts[i]) # 0 => g.kinds[i] = o.kinds[i])
    /\ \A i \in 1..Len(o.parts) :
         /\ Len(g.parts[i]) = Len(o.parts[i])
         /\ \A j \in 1..Len(o.parts[i]) :
              LET a == o.parts[i][j]
                  c == g.parts[i][j]
              IN  /\ c[1] = a[1] /\ c[2] = a[2] /\ c[3] = a[3]
                  /\ c[4] = IF IsMultiVertex(o.t) /\ StoresM(o.t) THEN NormM(a[4]) ELSE a[4]

\* C02: the strictly decoded shape g is the geometry o handed to the writer
\* (the decoder does not name ring roles: the role handed to the writer must be
\* the one the stored vertex order encodes)
SameGeometry(o, g, exact) ==
    /\ g.t = o.t /\ g.parts = o.parts /\ g.box = o.box
    /\ (o.t = 31 => g.kinds = o.kinds)
    /\ (Family(o.t) = "polygon" /\ exact) =>
          \A i \in 1..Len(o.parts) : RoleOK(o.parts[i], o.kinds[i])

\* C05: the header box hb of a finalized file of type t holding shapes S
AllPointsOf(S) == Concat([i \in 1..Len(S) |-> AllPoints(S[i])])
HeaderBoxOK(t, S, hb) ==
    LET ps == AllPointsOf(S)
        realM == \A i \in 1..Len(ps) : ~IsNoDataV(ps[i][4])
    IN  IF ps = << >> THEN hb[5] = 0 /\ hb[6] = 0 /\ hb[7] = 0 /\ hb[8] = 0
        ELSE IF HasNaN(ps) THEN TRUE
        ELSE /\ hb[1] = MinD(ps, 1) /\ hb[2] = MinD(ps, 2)
             /\ hb[3] = MaxD(ps, 1) /\ hb[4] = MaxD(ps, 2)
             /\ IF HasZ(t) THEN hb[5] = MinD(ps, 3) /\ hb[6] = MaxD(ps, 3)
                ELSE hb[5] = 0 /\ hb[6] = 0
             /\ IF HasM(t) THEN (realM => hb[7] = MinD(ps, 4) /\ hb[8] = MaxD(ps, 4))
                ELSE IF t = 31 THEN TRUE
                ELSE hb[7] = 0 /\ hb[8] = 0

\* the record table of a .shp by walking record headers only: <<offset in words, content words>>
RECURSIVE WalkRecs(_, _)
WalkRecs(b, p) ==
    IF ~Has(b, p, 8) THEN << >>
    ELSE LET w == RdBE(b, p + 4)
         IN  IF w < 0 \/ w > 500000000 THEN << << p \div 2, w >> >>
             ELSE << << p \div 2, w >> >> \o WalkRecs(b, p + 8 + 2 * w)

(***************************************************************************)
(* DecodeBody: the content of a record of type t at byte offset p of b,    *)
(* announced as len bytes (record length minus the type code).             *)
(*   lenient = FALSE  the strict decoder: the M block is mandatory for the *)
(*                    types that have one, measures are returned raw       *)
(*   lenient = TRUE   the reader model: the M block is optional (absent => *)
(*                    ND), measures of multi-vertex shapes are normalised  *)
(* Errors: "io" (the bytes end early), "invalid_size", "invalid_patch",    *)
(* "nonconformant" (counts or offsets no conformant file has; the property *)
(* family C07 demands only "an error or a value, no panic" there).         *)
(* Polygon ring roles are NOT decided here (kinds = << >>): they are a     *)
(* function of the vertex order, see RoleOK.                               *)
(***************************************************************************)
DecodePoint(b, p, len, t, lenient) ==
    LET want == CASE t = 1 -> {16} [] t = 21 -> {24}
                  [] t = 11 -> IF lenient THEN {24, 32} ELSE {32}
    IN  IF len \notin want THEN Fail("invalid_size", len, p)
        ELSE IF ~Has(b, p, len) THEN Fail("io", 0, Len(b))
        ELSE LET x == RdX(b, p)
                 y == RdX(b, p + 8)
                 z == IF t = 11 THEN RdZ(b, p + 16) ELSE 0
                 m == CASE t = 1 -> 0
                        [] t = 21 -> RdZ(b, p + 16)
                        [] t = 11 -> IF len = 32 THEN RdZ(b, p + 24) ELSE ND
             IN  Good([t |-> t, parts |-> << << << x, y, z, m >> >> >>, kinds |-> << >>,
                       box |-> ZeroBox], t = 11 /\ len = 24)

DecodeMulti(b, p, len, t, lenient) ==
    LET hp    == HasParts(t)
        hdrN  == IF hp THEN 40 ELSE 36
    IN  IF ~Has(b, p, hdrN) THEN Fail("io", 0, Len(b))
        ELSE
        LET np   == IF hp THEN RdLE(b, p + 32) ELSE 1
            nq   == IF hp THEN RdLE(b, p + 36) ELSE RdLE(b, p + 32)
        IN  IF np < 0 \/ nq < 0 \/ np > 16000000 \/ nq > 16000000
            THEN Fail("nonconformant", 0, p + 32)
            ELSE IF hp /\ ~Has(b, p + 40, 4 * np) THEN Fail("io", 0, Len(b))
            ELSE
            LET sNo   == SizeNoM(t, IF hp THEN np ELSE 0, nq)
                sWith == SizeWithM(t, IF hp THEN np ELSE 0, nq)
                okLen == IF lenient THEN len \in {sNo, sWith} ELSE len = sWith
            IN  IF ~okLen THEN Fail("invalid_size", len, p)
                ELSE
                LET mPresent == StoresM(t) /\ len = sWith
                    offs  == IF hp THEN RdInts(b, p + 40, np) ELSE << 0 >>
                    pk    == p + 40 + 4 * np                   \* kinds (multipatch)
                    pxy   == IF hp THEN pk + (IF HasKinds(t) THEN 4 * np ELSE 0) ELSE p + 36
                    pz    == IF StoresZ(t) THEN pxy + 16 * nq + 16 ELSE -1
                    afterZ == pxy + 16 * nq + SizeZ(t, nq)
                    pm    == IF mPresent THEN afterZ + 16
                             ELSE IF StoresM(t) THEN -2 ELSE -1
                    kindsAvail == ~HasKinds(t) \/ Has(b, pk, 4 * np)
                    kinds == IF HasKinds(t) /\ kindsAvail THEN RdInts(b, pk, np) ELSE << >>
                    badKind == {i \in 1..Len(kinds) : kinds[i] \notin PatchKinds}
                IN  IF ~kindsAvail THEN Fail("io", 0, Len(b))
                    ELSE IF badKind # {} THEN
                         LET i == CHOOSE j \in badKind : \A k \in badKind : j <= k
                         IN  Fail("invalid_patch", kinds[i], pk + 4 * (i - 1))
                    ELSE IF ~Has(b, p, len) THEN Fail("io", 0, Len(b))
                    ELSE IF ~OffsetsConformant(offs, nq) THEN Fail("nonconformant", 0, p + 40)
                    ELSE
                    LET pts == RdPoints(b, pxy, pz, pm, 0, nq, lenient)
                        box == << RdX(b, p), RdX(b, p + 8), RdX(b, p + 16), RdX(b, p + 24),
                                  IF StoresZ(t) THEN RdZ(b, pxy + 16 * nq) ELSE 0,
                                  IF StoresZ(t) THEN RdZ(b, pxy + 16 * nq + 8) ELSE 0,
                                  IF mPresent THEN RdZ(b, afterZ) ELSE IF StoresM(t) THEN ND ELSE 0,
                                  IF mPresent THEN RdZ(b, afterZ + 8) ELSE IF StoresM(t) THEN ND ELSE 0 >>
                    IN  Good([t |-> t,
                              parts |-> IF hp THEN SplitParts(pts, offs, 1, nq) ELSE << pts >>,
                              kinds |-> kinds, box |-> box],
                             StoresM(t) /\ ~mPresent)

DecodeBody(b, p, len, t, lenient) ==
    IF t = 0 THEN Good(NullShapeV, FALSE)
    ELSE IF IsPointType(t) THEN DecodePoint(b, p, len, t, lenient)
    ELSE DecodeMulti(b, p, len, t, lenient)

(***************************************************************************)
(* StrictShp: validator + decoder for a whole .shp, as strict as the       *)
(* whitepaper (and property C02) is.                                       *)
(***************************************************************************)
RECURSIVE AllZero(_, _, _)
AllZero(b, p, n) == n <= 0 \/ (b[p + 1] = 0 /\ AllZero(b, p + 1, n - 1))

Bad(at, why) == [ok |-> FALSE, at |-> at, why |-> why, t |-> 0, shapes |-> << >>,
                 box |-> ZeroBox, recs |-> << >>]

\* records from offset p on, the next one must carry number num
RECURSIVE StrictRecs(_, _, _, _, _, _)
StrictRecs(b, p, num, t, shapes, recs) ==
    IF p = Len(b) THEN [ok |-> TRUE, at |-> p, why |-> "", shapes |-> shapes, recs |-> recs]
    ELSE IF ~Has(b, p, 12) THEN [ok |-> FALSE, at |-> p, why |-> "truncated record header", shapes |-> shapes, recs |-> recs]
    ELSE
    LET n == RdBE(b, p)
        w == RdBE(b, p + 4)
        c == RdLE(b, p + 8)
    IN  IF n # num THEN [ok |-> FALSE, at |-> p, why |-> "record number", shapes |-> shapes, recs |-> recs]
        ELSE IF w < 2 \/ w > 500000000 \/ ~Has(b, p + 8, 2 * w)
             THEN [ok |-> FALSE, at |-> p + 4, why |-> "content length", shapes |-> shapes, recs |-> recs]
        ELSE IF c # t THEN [ok |-> FALSE, at |-> p + 8, why |-> "record type differs from file type", shapes |-> shapes, recs |-> recs]
        ELSE
        LET d == DecodeBody(b, p + 12, 2 * w - 4, t, FALSE)
        IN  IF ~d.ok THEN [ok |-> FALSE, at |-> d.at, why |-> d.err, shapes |-> shapes, recs |-> recs]
            ELSE StrictRecs(b, p + 8 + 2 * w, num + 1, t, Append(shapes, d.shape),
                            Append(recs, << p \div 2, w >>))

StrictShp(b) ==
    IF Len(b) < 100 THEN Bad(Len(b), "shorter than a header")
    ELSE IF RdBE(b, 0) # 9994 THEN Bad(0, "file code")
    ELSE IF ~AllZero(b, 4, 20) THEN Bad(4, "unused words not zero")
    ELSE IF Len(b) % 2 # 0 \/ RdBE(b, 24) # Len(b) \div 2 THEN Bad(24, "length field")
    ELSE IF RdLE(b, 28) # 1000 THEN Bad(28, "version")
    ELSE IF RdLE(b, 32) \notin Codes THEN Bad(32, "type code")
    ELSE
    LET t == RdLE(b, 32)
        r == StrictRecs(b, 100, 1, t, << >>, << >>)
    IN  IF ~r.ok THEN Bad(r.at, r.why)
        ELSE [ok |-> TRUE, at |-> 0, why |-> "", t |-> t, shapes |-> r.shapes,
              box |-> << RdX(b, 36), RdX(b, 44), RdX(b, 52), RdX(b, 60),
                         RdZ(b, 68), RdZ(b, 76), RdZ(b, 84), RdZ(b, 92) >>,
              recs |-> r.recs]

(***************************************************************************)
(* StrictShx: the index file against the record table of the .shp (C04).   *)
(***************************************************************************)
RECURSIVE RdIndex(_, _, _)
RdIndex(b, p, n) == IF n <= 0 THEN << >>
                    ELSE << << RdBE(b, p), RdBE(b, p + 4) >> >> \o RdIndex(b, p + 8, n - 1)

\* [ok, why, entries]: header = shp header except for the length field, which
\* is 50 + 4n words = the real length; entries as stored
StrictShx(x, shp) ==
    IF Len(x) < 100 \/ Len(shp) < 100 THEN [ok |-> FALSE, why |-> "short", entries |-> << >>]
    ELSE IF Slice(x, 0, 24) # Slice(shp, 0, 24) \/ Slice(x, 28, 72) # Slice(shp, 28, 72)
         THEN [ok |-> FALSE, why |-> "index header differs from shp header", entries |-> << >>]
    ELSE IF (Len(x) - 100) % 8 # 0 \/ RdBE(x, 24) # 50 + 4 * ((Len(x) - 100) \div 8)
         THEN [ok |-> FALSE, why |-> "index length field", entries |-> << >>]
    ELSE [ok |-> TRUE, why |-> "", entries |-> RdIndex(x, 100, (Len(x) - 100) \div 8)]

(***************************************************************************)
(* The reader model.                                                       *)
(*                                                                         *)
(* ReadAt(b, off, req): what a conformant reader returns for the record    *)
(* whose header starts at byte off; req = -1 for a generic read, a type    *)
(* code for a typed read.  The record number is ignored, the record's own  *)
(* type code decides the layout, a null record has no content.             *)
(***************************************************************************)
ReadAt(b, off, req) ==
    IF off < 0 \/ off > Len(b) THEN Fail("io", 0, Len(b))
    ELSE IF ~Has(b, off, 8) THEN Fail("io", 0, Len(b))
    ELSE
    LET w == RdBE(b, off + 4)
    IN  IF ~Has(b, off + 8, 4) THEN Fail("io", 0, Len(b))
        ELSE
        LET c == RdLE(b, off + 8)
        IN  IF c \notin Codes THEN Fail("invalid_type", c, off + 8)
            ELSE IF req # -1 /\ c # req THEN Fail("mismatch", c, off + 8)
            \* the content holds at least the type code (2 words); a null record holds nothing else
            ELSE IF w < 2 \/ w > 500000000 \/ (c = 0 /\ w # 2) THEN Fail("nonconformant", 0, off + 4)
            ELSE LET d == DecodeBody(b, off + 12, 2 * w - 4, c, TRUE)
                 IN  IF d.ok THEN [d EXCEPT !.at = off + 8 + 2 * w] ELSE d

\* outcome of opening: the header as far as a reader looks at it
OpenShp(b) ==
    IF Len(b) < 100 THEN [ok |-> FALSE, err |-> "io", code |-> 0]
    ELSE IF RdBE(b, 0) # 9994 THEN [ok |-> FALSE, err |-> "invalid_file_code", code |-> RdBE(b, 0)]
    ELSE IF RdLE(b, 32) \notin Codes THEN [ok |-> FALSE, err |-> "invalid_type", code |-> RdLE(b, 32)]
    ELSE [ok |-> TRUE, err |-> "", code |-> 0]

\* sequential iteration without an index: records follow each other from byte
\* 100 up to the declared length; bytes past it are ignored.
\* Result [items, err, code]: the shapes before the first error and the error ("" = none)
RECURSIVE SeqIter(_, _, _, _, _)
SeqIter(b, pos, declared, req, items) ==
    IF pos >= declared THEN [items |-> items, err |-> "", code |-> 0]
    ELSE LET r == ReadAt(b, pos, req)
         IN  IF ~r.ok THEN [items |-> items, err |-> r.err, code |-> r.code]
             ELSE SeqIter(b, r.at, declared, req, Append(items, r))

\* iteration driven by an index: one record per entry, in index order (C14)
RECURSIVE IdxIter(_, _, _, _, _)
IdxIter(b, idx, i, req, items) ==
    IF i > Len(idx) THEN [items |-> items, err |-> "", code |-> 0]
    ELSE IF idx[i][1] < 0 \/ idx[i][1] > 1000000000 THEN [items |-> items, err |-> "nonconformant", code |-> 0]
    ELSE LET r == ReadAt(b, 2 * idx[i][1], req)
         IN  IF ~r.ok THEN [items |-> items, err |-> r.err, code |-> r.code]
             ELSE IdxIter(b, idx, i + 1, req, Append(items, r))

DeclaredBytes(b) == LET w == RdBE(b, 24) IN IF w < 0 \/ w > 1000000000 THEN -1 ELSE 2 * w

\* the index a reader builds from .shx bytes: [ok, err, entries]
OpenShx(x) ==
    IF Len(x) < 100 THEN [ok |-> FALSE, err |-> "io", entries |-> << >>]
    ELSE IF RdBE(x, 0) # 9994 THEN [ok |-> FALSE, err |-> "invalid_file_code", entries |-> << >>]
    ELSE IF RdLE(x, 32) \notin Codes THEN [ok |-> FALSE, err |-> "invalid_type", entries |-> << >>]
    ELSE LET w == RdBE(x, 24)
         IN  IF w < 50 \/ w > 1000000000 THEN [ok |-> FALSE, err |-> "nonconformant", entries |-> << >>]
             ELSE LET n == (2 * w - 100) \div 8
                  IN  IF ~Has(x, 100, 8 * n) THEN [ok |-> FALSE, err |-> "io", entries |-> << >>]
                      ELSE [ok |-> TRUE, err |-> "", entries |-> RdIndex(x, 100, n)]

\* what a reader sees on the persisted pair (shpB, shxB or NoIndex): [openErr, items, err]
ReadFile(shpB, useIndex, shxB) ==
    LET o == OpenShp(shpB)
        x == IF useIndex THEN OpenShx(shxB) ELSE [ok |-> TRUE, err |-> "", entries |-> << >>]
    IN  IF ~x.ok THEN [openErr |-> x.err, items |-> << >>, err |-> ""]
        ELSE IF ~o.ok THEN [openErr |-> o.err, items |-> << >>, err |-> ""]
        ELSE LET r == IF useIndex THEN IdxIter(shpB, x.entries, 1, -1, << >>)
                      ELSE IF DeclaredBytes(shpB) < 0 THEN [items |-> << >>, err |-> "nonconformant", code |-> 0]
                      ELSE SeqIter(shpB, 100, DeclaredBytes(shpB), -1, << >>)
             IN  [openErr |-> "", items |-> r.items, err |-> r.err]

\* the relation C11 states between what was written and what a reader returns
\* (items = shapes returned before the first error)
ItemsArePrefix(items, W) ==
    /\ Len(items) <= Len(W)
    /\ \A i \in 1..Len(items) : ReadBackRel(W[i], items[i].shape, FALSE)


\* two decodings of the same bytes agree (the reader model does not name ring roles)
SameRead(ms, rs) ==
    /\ ms.t = rs.t /\ ms.parts = rs.parts /\ ms.box = rs.box
    /\ (ms.t = 31 => ms.kinds = rs.kinds)

=============================================================================
