----------------------------- MODULE EsriTypes -----------------------------
(***************************************************************************)
(* The ESRI shape-type table (whitepaper p. 4) and what follows from it.   *)
(* Types are identified by their integer code.                             *)
(***************************************************************************)
EXTENDS Integers, Sequences, FiniteSets, EsriBytes

Codes == {0, 1, 3, 5, 8, 11, 13, 15, 18, 21, 23, 25, 28, 31}
Concrete == Codes \ {0}

\* the codes in ascending order, used for the tiling of int32
CodeSeq == << 0, 1, 3, 5, 8, 11, 13, 15, 18, 21, 23, 25, 28, 31 >>

TypeName(c) ==
    CASE c = 0  -> "NullShape"
      [] c = 1  -> "Point"
      [] c = 3  -> "Polyline"
      [] c = 5  -> "Polygon"
      [] c = 8  -> "Multipoint"
      [] c = 11 -> "PointZ"
      [] c = 13 -> "PolylineZ"
      [] c = 15 -> "PolygonZ"
      [] c = 18 -> "MultipointZ"
      [] c = 21 -> "PointM"
      [] c = 23 -> "PolylineM"
      [] c = 25 -> "PolygonM"
      [] c = 28 -> "MultipointM"
      [] c = 31 -> "Multipatch"

\* families: the base geometry of a code
Family(c) ==
    CASE c = 0 -> "null"
      [] c \in {1, 11, 21} -> "point"
      [] c \in {8, 18, 28} -> "multipoint"
      [] c \in {3, 13, 23} -> "polyline"
      [] c \in {5, 15, 25} -> "polygon"
      [] c = 31 -> "multipatch"

ZTypes == {11, 13, 15, 18}
MTypes == {21, 23, 25, 28}

HasZ(c) == c \in ZTypes \cup {31}
HasM(c) == c \in MTypes \cup ZTypes
IsMultipart(c) == Family(c) \in {"polyline", "polygon", "multipatch", "null"}
\* NullShape: the library's is_multipart() is "not one of the point and
\* multipoint families"; the property lists only the 13 geometry families, so
\* the null shape is left out of the comparison (see MC_Types).

\* what a record of this type stores per vertex
StoresZ(c) == HasZ(c)
\* multipatch records carry the optional M block as well (whitepaper p. 21)
StoresM(c) == HasM(c) \/ c = 31
HasParts(c) == Family(c) \in {"polyline", "polygon", "multipatch"}
HasKinds(c) == c = 31
IsPointType(c) == Family(c) = "point"
IsMultiVertex(c) == Family(c) \in {"multipoint", "polyline", "polygon", "multipatch"}

PatchKinds == 0..5
RingKinds == {2, 3, 4, 5}        \* outer, inner, first, ring
\* polygon ring roles in abstract shapes
Outer == 0
Inner == 1

(***************************************************************************)
(* C19: the 14 codes and the 15 gaps between / around them tile int32.     *)
(* Interval i (1..29): odd i = gap, even i = the singleton CodeSeq[i/2].   *)
(***************************************************************************)
NIntervals == 29
IvLo(i) == IF i % 2 = 0 THEN CodeSeq[i \div 2]
           ELSE IF i = 1 THEN I32Min ELSE CodeSeq[(i - 1) \div 2] + 1
IvHi(i) == IF i % 2 = 0 THEN CodeSeq[i \div 2]
           ELSE IF i = 29 THEN I32Max ELSE CodeSeq[(i + 1) \div 2] - 1
IvValid(i) == i % 2 = 0
IvEmpty(i) == IvLo(i) > IvHi(i)

\* the decoding function the property demands, on one value
DecodeCode(v) == IF v \in Codes THEN [ok |-> TRUE, t |-> v] ELSE [ok |-> FALSE, t |-> v]

=============================================================================
