------------------------------ MODULE IoDevice ------------------------------
(***************************************************************************)
(* Byte devices (destinations), the operations issued on them, and the     *)
(* crash model: what is persisted after a crash is the effect of a prefix  *)
(* of the operation sequence plus a byte prefix of the next write.         *)
(* No variables: the writer specification and the trace specifications     *)
(* both use these operators (the latter on operation logs recorded from    *)
(* the real writer).                                                       *)
(***************************************************************************)
EXTENDS Integers, Sequences, EsriBytes

Dev0 == [bytes |-> << >>, pos |-> 0, unflushed |-> FALSE]

(***************************************************************************)
(* Devices and operations                                                  *)
(*   [k |-> "w", data]   write at the current position                     *)
(*   [k |-> "s", to]     seek to an absolute offset (to = -1: the end)     *)
(*   [k |-> "f", n]      flush; n = number of shapes this flush commits    *)
(***************************************************************************)
OpW(d)  == [k |-> "w", data |-> d, to |-> 0, n |-> 0]
OpS(t)  == [k |-> "s", data |-> << >>, to |-> t, n |-> 0]
OpF(n)  == [k |-> "f", data |-> << >>, to |-> 0, n |-> n]

ApplyOp(d, op) ==
    CASE op.k = "w" -> [bytes |-> Patch(d.bytes, d.pos, op.data), pos |-> d.pos + Len(op.data), unflushed |-> TRUE]
      [] op.k = "s" -> [d EXCEPT !.pos = IF op.to = -1 THEN Len(d.bytes) ELSE op.to]
      [] op.k = "f" -> [d EXCEPT !.unflushed = FALSE]

\* operations lo..hi in order (balanced recursion: depth log n, see EsriBytes)
RECURSIVE ApplyRange(_, _, _, _)
ApplyRange(d, ops, lo, hi) ==
    IF hi < lo THEN d
    ELSE IF hi = lo THEN ApplyOp(d, ops[lo])
    ELSE LET mid == (lo + hi) \div 2 IN ApplyRange(ApplyRange(d, ops, lo, mid), ops, mid + 1, hi)
ApplyOps(d, ops) == ApplyRange(d, ops, 1, Len(ops))

(***************************************************************************)
(* Crash model (C11).  What is persisted after a crash is, per             *)
(* destination and independently, the effect of a prefix of its operation  *)
(* sequence plus a byte prefix of the next write.                          *)
(***************************************************************************)
\* the device after the first i operations (seeks included)
BytesAfter(ops, i, d) == ApplyRange(d, ops, 1, i)

CutBytes(ops, i, c) ==
    LET d == BytesAfter(ops, i, Dev0)
    IN  IF c = 0 \/ i >= Len(ops) \/ ops[i + 1].k # "w" THEN d.bytes
        ELSE Patch(d.bytes, d.pos, SubSeq(ops[i + 1].data, 1, c))

\* number of shapes committed by the flushes among the first i operations
RECURSIVE MaxFlush(_, _, _)
MaxFlush(ops, lo, hi) ==
    IF hi < lo THEN 0
    ELSE IF hi = lo THEN (IF ops[lo].k = "f" THEN ops[lo].n ELSE 0)
    ELSE LET mid == (lo + hi) \div 2 IN Max2(MaxFlush(ops, lo, mid), MaxFlush(ops, mid + 1, hi))
CommittedAt(ops, i) == MaxFlush(ops, 1, i)

=============================================================================
