------------------------------ MODULE IoDevice ------------------------------
(***************************************************************************)
(* Byte devices (destinations), the operations issued on them, and the     *)
(* crash model: what is persisted after a crash is the effect of a prefix  *)
(* of the operation sequence plus a byte prefix of the next write.         *)
(* No variables: the writer specification and the trace specifications     *)
(* both use these operators (the latter on operation logs recorded from    *)
(* the real writer).                                                       *)
(***************************************************************************)
EXTENDS Integers, Sequences, EsriBytes

Dev0 == [bytes |-> << >>, pos |-> 0, unflushed |-> FALSE]

(***************************************************************************)
(* Devices and operations                                                  *)
(*   [k |-> "w", data]   write at the current position                     *)
(*   [k |-> "s", to]     seek to an absolute offset (to = -1: the end)     *)
(*   [k |-> "f", n]      flush; n = number of shapes this flush commits    *)
(***************************************************************************)
OpW(d)  == [k |-> "w", data |-> d, to |-> 0, n |-> 0]
OpS(t)  == [k |-> "s", data |-> << >>, to |-> t, n |-> 0]
OpF(n)  == [k |-> "f", data |-> << >>, to |-> 0, n |-> n]

ApplyOp(d, op) ==
    CASE op.k = "w" -> [bytes |-> Patch(d.bytes, d.pos, op.data), pos |-> d.pos + Len(op.data), unflushed |-> TRUE]
      [] op.k = "s" -> [d EXCEPT !.pos = IF op.to = -1 THEN Len(d.bytes) ELSE op.to]
      [] op.k = "f" -> [d EXCEPT !.unflushed = FALSE]

RECURSIVE ApplyOps(_, _)
ApplyOps(d, ops) == IF ops = << >> THEN d ELSE ApplyOps(ApplyOp(d, Head(ops)), Tail(ops))

(***************************************************************************)
(* Crash model (C11).  What is persisted after a crash is, per             *)
(* destination and independently, the effect of a prefix of its operation  *)
(* sequence plus a byte prefix of the next write.                          *)
(***************************************************************************)
RECURSIVE BytesAfter(_, _, _)
\* the device after the first i operations (seeks included)
BytesAfter(ops, i, d) == IF i = 0 THEN d ELSE BytesAfter(Tail(ops), i - 1, ApplyOp(d, Head(ops)))

CutBytes(ops, i, c) ==
    LET d == BytesAfter(ops, i, Dev0)
    IN  IF c = 0 \/ i >= Len(ops) \/ ops[i + 1].k # "w" THEN d.bytes
        ELSE Patch(d.bytes, d.pos, SubSeq(ops[i + 1].data, 1, c))

\* number of shapes committed by the flushes among the first i operations
RECURSIVE CommittedAt(_, _)
CommittedAt(ops, i) ==
    IF i = 0 THEN 0
    ELSE IF ops[i].k = "f" THEN Max2(ops[i].n, CommittedAt(ops, i - 1)) ELSE CommittedAt(ops, i - 1)


=============================================================================
