---------------------------- MODULE WriterDirty ----------------------------
(***************************************************************************)
(* The dirty-flag protocol of the writer (C09, C12), abstracted from       *)
(* bytes: what the two file headers on the destinations declare (devLen:   *)
(* the .shp length in words, devN: the number of index entries the .shx    *)
(* length stands for) against what the writer knows (hLen, nrec).          *)
(* UNBOUNDED: TLAPS proves for any history of writes, refused writes,      *)
(* finalizes (successful or failed at any point), that                     *)
(*   - whenever the writer is clean, both headers are current, so          *)
(*   - a finalize or drop that finds the writer clean may skip all I/O     *)
(*     (C09: "finalize with nothing new to commit performs no I/O") and    *)
(*     still leaves complete files;                                        *)
(*   - a failed finalize leaves the writer dirty, so a retry rewrites      *)
(*     everything (C12), whatever the failed attempt left in the headers.  *)
(* TLC checks the same on the byte-level model (Inv_Committed,             *)
(* Act_CleanFinalizeSilent, Inv_FailedFinalizeRetryable) in a small scope. *)
(***************************************************************************)
EXTENDS Integers, TLAPS

VARIABLES dirty, hLen, nrec,   \* the writer
          devLen, devN,        \* what the headers on the destinations declare
          io                   \* whether the last call touched a destination

vars == << dirty, hLen, nrec, devLen, devN, io >>

Init == /\ dirty = TRUE /\ hLen = 50 /\ nrec = 0
        /\ devLen \in Int /\ devN \in Int      \* anything: nothing has been written to the destinations yet
        /\ io = FALSE

Write(w) == /\ hLen' = hLen + 4 + w /\ nrec' = nrec + 1 /\ dirty' = TRUE /\ io' = TRUE
            /\ UNCHANGED << devLen, devN >>

\* C10 (type mismatch) and a write that failed before emitting a byte
WriteNoEffect == io' = FALSE /\ UNCHANGED << dirty, hLen, nrec, devLen, devN >>

FinalizeOk == IF dirty
              THEN /\ devLen' = hLen /\ devN' = nrec /\ dirty' = FALSE /\ io' = TRUE
                   /\ UNCHANGED << hLen, nrec >>
              ELSE /\ io' = FALSE /\ UNCHANGED << dirty, hLen, nrec, devLen, devN >>

\* the finalize fails somewhere: the headers hold anything, the flag is still set
FinalizeFails == /\ dirty /\ devLen' \in Int /\ devN' \in Int /\ io' = TRUE
                 /\ UNCHANGED << dirty, hLen, nrec >>

Next == (\E w \in Nat : Write(w)) \/ WriteNoEffect \/ FinalizeOk \/ FinalizeFails

Spec == Init /\ [][Next]_vars

TypeOK == dirty \in BOOLEAN /\ hLen \in Int /\ nrec \in Int /\ devLen \in Int /\ devN \in Int /\ io \in BOOLEAN

\* the headers are current whenever the writer is clean
CleanMeansCurrent == ~dirty => (devLen = hLen /\ devN = nrec)

Inv == TypeOK /\ CleanMeansCurrent

\* what a successful finalize (and therefore a drop) establishes, with or without I/O
Committed == devLen = hLen /\ devN = nrec /\ ~dirty

LEMMA InitInv == Init => Inv
  BY DEF Init, Inv, TypeOK, CleanMeansCurrent

LEMMA NextInv == Inv /\ [Next]_vars => Inv'
<1> SUFFICES ASSUME Inv, [Next]_vars PROVE Inv'
  OBVIOUS
<1>1. CASE UNCHANGED vars
  BY <1>1 DEF Inv, TypeOK, CleanMeansCurrent, vars
<1>2. CASE \E w \in Nat : Write(w)
  BY <1>2 DEF Write, Inv, TypeOK, CleanMeansCurrent
<1>3. CASE WriteNoEffect
  BY <1>3 DEF WriteNoEffect, Inv, TypeOK, CleanMeansCurrent
<1>4. CASE FinalizeOk
  BY <1>4 DEF FinalizeOk, Inv, TypeOK, CleanMeansCurrent
<1>5. CASE FinalizeFails
  BY <1>5 DEF FinalizeFails, Inv, TypeOK, CleanMeansCurrent
<1> QED BY <1>1, <1>2, <1>3, <1>4, <1>5 DEF Next

\* every successful finalize commits, including the silent one
LEMMA FinalizeCommits == Inv /\ FinalizeOk => Committed'
  BY DEF Inv, TypeOK, CleanMeansCurrent, FinalizeOk, Committed

\* a finalize that finds nothing to commit performs no I/O -- and only then
LEMMA SilentIffClean == Inv /\ FinalizeOk => (io' = dirty)
  BY DEF Inv, TypeOK, FinalizeOk

\* after a failed finalize the next successful one rewrites (it is not silent)
LEMMA RetryRewrites == Inv /\ FinalizeFails => dirty'
  BY DEF FinalizeFails

THEOREM Safety == Spec => []Inv
<1>1. Init => Inv
  BY InitInv
<1>2. Inv /\ [Next]_vars => Inv'
  BY NextInv
<1> QED BY <1>1, <1>2, PTL DEF Spec
=============================================================================
