----------------------------- MODULE WriterBox -----------------------------
(***************************************************************************)
(* The header box of the writer (C05), one dimension, abstracted from      *)
(* bytes and from floating point: a shape is the interval <<a, b>> (a <= b)*)
(* of its extreme coordinates in that dimension, over the integers (the    *)
(* value ids of the specification are ranks: only the order matters).      *)
(* Unlike the TLC models this is UNBOUNDED: TLAPS proves for any number of *)
(* shapes that the incrementally grown range is exactly the declarative    *)
(* one: its low end is the least low end of the shapes written, its high   *)
(* end the greatest high end, and it is "unset" exactly when nothing was   *)
(* written.  A write that fails cleanly (ShapeWriter!CleanFailure) and a   *)
(* refused write leave everything as it was.                               *)
(*                                                                         *)
(* Correspondence with the writer specification: per dimension d,          *)
(* ShapeWriter!GrowBox keeps hb.b[d] := Min2(hb.b[d], MinD(ps, d)) when    *)
(* hb.set and MinD(ps, d) otherwise (likewise Max): Write(p) below with    *)
(* p = <<MinD(ps, d), MaxD(ps, d)>>; the M range does the same over the    *)
(* real measures with its own flag (mreal).  TLC checks Inv_HeaderBox on   *)
(* the byte-level model in a small scope; this module removes the bound    *)
(* on the number of shapes for the folding argument itself.                *)
(***************************************************************************)
EXTENDS Integers, Sequences, TLAPS

VARIABLES set,   \* FALSE until the first shape is written (the code starts from (+inf, -inf))
          lo, hi,\* the running range of the header
          S      \* ghost: the intervals of the shapes written so far

vars == << set, lo, hi, S >>

Interval == { p \in Int \X Int : p[1] <= p[2] }

Min(x, y) == IF x <= y THEN x ELSE y
Max(x, y) == IF x >= y THEN x ELSE y

Init == set = FALSE /\ lo = 0 /\ hi = 0 /\ S = << >>

Write(p) == /\ set' = TRUE
            /\ lo' = IF set THEN Min(lo, p[1]) ELSE p[1]
            /\ hi' = IF set THEN Max(hi, p[2]) ELSE p[2]
            /\ S' = Append(S, p)

\* a refused write (C10) or a write that failed before emitting a byte (C05 after a fault)
NoEffect == UNCHANGED vars

Next == (\E p \in Interval : Write(p)) \/ NoEffect

Spec == Init /\ [][Next]_vars

TypeOK == /\ set \in BOOLEAN /\ lo \in Int /\ hi \in Int /\ S \in Seq(Interval)

\* C05, declaratively: the range is attained and bounds every shape
Exact == /\ set = (S # << >>)
         /\ set => /\ \A i \in 1..Len(S) : lo <= S[i][1] /\ S[i][2] <= hi
                   /\ \E i \in 1..Len(S) : lo = S[i][1]
                   /\ \E i \in 1..Len(S) : hi = S[i][2]
         /\ ~set => (lo = 0 /\ hi = 0)      \* ranges of a file without shapes are 0

Inv == TypeOK /\ Exact

LEMMA InitInv == Init => Inv
  BY DEF Init, Inv, TypeOK, Exact

LEMMA NextInv == Inv /\ [Next]_vars => Inv'
<1> SUFFICES ASSUME Inv, [Next]_vars PROVE Inv'
  OBVIOUS
<1>1. CASE UNCHANGED vars
  BY <1>1 DEF Inv, TypeOK, Exact, vars
<1>2. CASE NoEffect
  BY <1>2 DEF NoEffect, Inv, TypeOK, Exact, vars
<1>3. CASE \E p \in Interval : Write(p)
  <2> PICK p \in Interval : Write(p)
    BY <1>3
  <2>a. p \in Int \X Int /\ p[1] \in Int /\ p[2] \in Int /\ p[1] <= p[2]
    BY DEF Interval
  <2>0. S \in Seq(Interval) /\ set \in BOOLEAN /\ lo \in Int /\ hi \in Int
    BY DEF Inv, TypeOK
  <2>1. S' = Append(S, p) /\ set' = TRUE
    BY DEF Write
  <2>2. Len(S') = Len(S) + 1 /\ S' \in Seq(Interval) /\ S'[Len(S) + 1] = p
    BY <2>0, <2>1
  <2>3. \A i \in 1..Len(S) : S'[i] = S[i]
    BY <2>0, <2>1
  <2>4. S' # << >>
    BY <2>0, <2>1
  <2>5. \A i \in 1..Len(S) : S[i] \in Interval /\ S[i][1] \in Int /\ S[i][2] \in Int
    BY <2>0 DEF Interval
  <2>6. CASE ~set
    <3>1. lo' = p[1] /\ hi' = p[2]
      BY <2>6 DEF Write
    <3>2. S = << >> /\ Len(S) = 0
      BY <2>6, <2>0 DEF Inv, Exact
    <3>3. Len(S') = 1 /\ S'[1] = p
      BY <3>2, <2>2
    <3>4. TypeOK'
      BY <2>1, <2>2, <3>1, <2>a DEF TypeOK
    <3>5. Exact'
      BY <2>1, <2>4, <3>1, <3>3, <2>a DEF Exact
    <3> QED BY <3>4, <3>5 DEF Inv
  <2>7. CASE set
    <3>1. lo' = Min(lo, p[1]) /\ hi' = Max(hi, p[2])
      BY <2>7 DEF Write
    <3>2. lo' \in Int /\ hi' \in Int /\ lo' <= lo /\ lo' <= p[1] /\ hi <= hi' /\ p[2] <= hi'
          /\ (lo' = lo \/ lo' = p[1]) /\ (hi' = hi \/ hi' = p[2])
      BY <3>1, <2>0, <2>a DEF Min, Max
    <3>3. /\ \A i \in 1..Len(S) : lo <= S[i][1] /\ S[i][2] <= hi
          /\ \E i \in 1..Len(S) : lo = S[i][1]
          /\ \E i \in 1..Len(S) : hi = S[i][2]
      BY <2>7 DEF Inv, Exact
    <3>4. TypeOK'
      BY <2>1, <2>2, <3>2 DEF TypeOK
    <3>5. \A i \in 1..Len(S') : lo' <= S'[i][1] /\ S'[i][2] <= hi'
      <4> TAKE i \in 1..Len(S')
      <4>1. CASE i \in 1..Len(S)
        BY <4>1, <2>3, <3>3, <3>2, <2>5, <2>0
      <4>2. CASE i = Len(S) + 1
        BY <4>2, <2>2, <3>2
      <4> QED BY <4>1, <4>2, <2>2, <2>0
    <3>6. \E i \in 1..Len(S') : lo' = S'[i][1]
      <4>1. CASE lo' = lo
        <5> PICK j \in 1..Len(S) : lo = S[j][1]
          BY <3>3
        <5> j \in 1..Len(S') /\ S'[j] = S[j]
          BY <2>2, <2>3, <2>0
        <5> QED BY <4>1
      <4>2. CASE lo' = p[1]
        <5> (Len(S) + 1) \in 1..Len(S')
          BY <2>2, <2>0
        <5> QED BY <4>2, <2>2
      <4> QED BY <4>1, <4>2, <3>2
    <3>7. \E i \in 1..Len(S') : hi' = S'[i][2]
      <4>1. CASE hi' = hi
        <5> PICK j \in 1..Len(S) : hi = S[j][2]
          BY <3>3
        <5> j \in 1..Len(S') /\ S'[j] = S[j]
          BY <2>2, <2>3, <2>0
        <5> QED BY <4>1
      <4>2. CASE hi' = p[2]
        <5> (Len(S) + 1) \in 1..Len(S')
          BY <2>2, <2>0
        <5> QED BY <4>2, <2>2
      <4> QED BY <4>1, <4>2, <3>2
    <3>8. Exact'
      BY <2>1, <2>4, <3>5, <3>6, <3>7 DEF Exact
    <3> QED BY <3>4, <3>8 DEF Inv
  <2> QED BY <2>6, <2>7, <2>0
<1> QED BY <1>1, <1>2, <1>3 DEF Next

THEOREM Safety == Spec => []Inv
<1>1. Init => Inv
  BY InitInv
<1>2. Inv /\ [Next]_vars => Inv'
  BY NextInv
<1> QED BY <1>1, <1>2, PTL DEF Spec
=============================================================================
