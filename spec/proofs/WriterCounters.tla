--------------------------- MODULE WriterCounters ---------------------------
(***************************************************************************)
(* The arithmetic of the writer's running length and of the index entries  *)
(* it emits (C04, C02), abstracted from bytes: a record is its content     *)
(* length w in words.  Unlike the TLC models this is UNBOUNDED: the        *)
(* theorem is proved with TLAPS for any number of records of any size.     *)
(*                                                                         *)
(*   idx[i] = <<offset, words>> is the i-th index entry;                   *)
(*   Chain: the first record starts at word 50, each next record starts    *)
(*   right after the previous one (its 4 header words and its content),    *)
(*   and the running length hLen is where the next record will start --    *)
(*   which is also the length the header must declare at finalize.         *)
(***************************************************************************)
EXTENDS Integers, Sequences, TLAPS

VARIABLES hLen,   \* the writer's running length (what finalize writes into the header)
          idx,    \* the index entries emitted so far
          recs,   \* ghost: where each record really lies in the .shp: << start word, content words >>
          fileEnd \* ghost: the real length of the .shp in words

vars == << hLen, idx, recs, fileEnd >>

Init == hLen = 50 /\ idx = << >> /\ recs = << >> /\ fileEnd = 50

\* a record of w content words is appended at the end of the file; the index entry is
\* computed from the running length BEFORE it is advanced
Write(w) == /\ idx' = Append(idx, << hLen, w >>)
            /\ hLen' = hLen + 4 + w
            /\ recs' = Append(recs, << fileEnd, w >>)
            /\ fileEnd' = fileEnd + 4 + w

Next == \E w \in Nat : Write(w)

Spec == Init /\ [][Next]_vars

TypeOK == /\ hLen \in Nat /\ fileEnd \in Nat
          /\ idx \in Seq(Nat \X Nat) /\ recs \in Seq(Nat \X Nat)

Chain == /\ (idx # << >> => idx[1][1] = 50)
         /\ \A i \in 1..(Len(idx) - 1) : idx[i + 1][1] = idx[i][1] + 4 + idx[i][2]
         /\ hLen = IF idx = << >> THEN 50 ELSE idx[Len(idx)][1] + 4 + idx[Len(idx)][2]

\* C04 / C02: the index IS the record table, the declared length IS the real length
Agree == idx = recs /\ hLen = fileEnd

Inv == TypeOK /\ Chain /\ Agree

\* the index file's own length in words, and the property C04 states about every entry
ShxLen == 50 + 4 * Len(idx)
NoOverlap == \A i \in 1..(Len(idx) - 1) : idx[i][1] + 4 + idx[i][2] = idx[i + 1][1]

LEMMA InitInv == Init => Inv
  BY DEF Init, Inv, TypeOK, Chain, Agree

LEMMA NextInv == Inv /\ [Next]_vars => Inv'
<1> SUFFICES ASSUME Inv, [Next]_vars PROVE Inv'
  OBVIOUS
<1>1. CASE UNCHANGED vars
  BY <1>1 DEF Inv, TypeOK, Chain, Agree, vars
<1>2. CASE Next
  <2> PICK w \in Nat : Write(w)
    BY <1>2 DEF Next
  <2>1. idx' = Append(idx, << hLen, w >>) /\ hLen' = hLen + 4 + w
    BY DEF Write
  <2>0. recs' = Append(recs, << fileEnd, w >>) /\ fileEnd' = fileEnd + 4 + w
    BY DEF Write
  <2>2. TypeOK'
    BY <2>1, <2>0 DEF Inv, TypeOK
  <2>7. Agree'
    BY <2>1, <2>0 DEF Inv, Agree
  <2>3. Len(idx') = Len(idx) + 1
    BY <2>1 DEF Inv, TypeOK
  <2>4. \A i \in 1..Len(idx) : idx'[i] = idx[i]
    BY <2>1 DEF Inv, TypeOK
  <2>5. idx'[Len(idx) + 1] = << hLen, w >>
    BY <2>1 DEF Inv, TypeOK
  <2>6. Chain'
    <3>1. idx' # << >> => idx'[1][1] = 50
      <4>1. CASE idx = << >>
        BY <4>1, <2>1, <2>5 DEF Inv, Chain, TypeOK
      <4>2. CASE idx # << >>
        BY <4>2, <2>4, <2>1 DEF Inv, Chain, TypeOK
      <4> QED BY <4>1, <4>2
    <3>2. \A i \in 1..(Len(idx') - 1) : idx'[i + 1][1] = idx'[i][1] + 4 + idx'[i][2]
      <4> SUFFICES ASSUME NEW i \in 1..(Len(idx') - 1) PROVE idx'[i + 1][1] = idx'[i][1] + 4 + idx'[i][2]
        OBVIOUS
      <4>1. CASE i < Len(idx)
        BY <4>1, <2>3, <2>4 DEF Inv, Chain, TypeOK
      <4>2. CASE i = Len(idx)
        <5>1. idx # << >>
          BY <4>2, <2>3 DEF Inv, TypeOK
        <5>2. hLen = idx[Len(idx)][1] + 4 + idx[Len(idx)][2]
          BY <5>1 DEF Inv, Chain
        <5> QED BY <4>2, <5>2, <2>4, <2>5, <2>3 DEF Inv, TypeOK
      <4> QED BY <4>1, <4>2, <2>3 DEF Inv, TypeOK
    <3>3. hLen' = IF idx' = << >> THEN 50 ELSE idx'[Len(idx')][1] + 4 + idx'[Len(idx')][2]
      BY <2>1, <2>3, <2>5 DEF Inv, TypeOK
    <3> QED BY <3>1, <3>2, <3>3 DEF Chain
  <2> QED BY <2>2, <2>6, <2>7 DEF Inv
<1> QED BY <1>1, <1>2

THEOREM Safety == Spec => []Inv
  BY InitInv, NextInv, PTL DEF Spec

\* what C04 says about consecutive entries follows from the invariant
THEOREM Inv => NoOverlap
  BY DEF Inv, Chain, NoOverlap, TypeOK
=============================================================================
