--------------------------- MODULE WriterNumbers ---------------------------
(***************************************************************************)
(* Record numbers (C02) under refused and failed writes, abstracted from   *)
(* bytes: nums is the sequence of record numbers in the .shp, recNum the   *)
(* number the writer will give the next record.  UNBOUNDED: TLAPS proves   *)
(* for any history of accepted writes, refused writes (C10: another type)  *)
(* and writes that failed before emitting a byte, that the records are     *)
(* numbered 1, 2, 3, ... without gap or repetition and that the counter is *)
(* one more than the number of records -- i.e. that a call which adds no   *)
(* record consumes no number (seeded changes C02c and C04g break exactly   *)
(* this; TLC sees it on the byte-level model through StrictShp).           *)
(***************************************************************************)
EXTENDS Integers, Sequences, TLAPS

VARIABLES nums, recNum
vars == << nums, recNum >>

Init == nums = << >> /\ recNum = 1

WriteOk == nums' = Append(nums, recNum) /\ recNum' = recNum + 1
\* refused for its type, or failed before a byte was emitted: nothing changes
WriteNoEffect == UNCHANGED vars

Next == WriteOk \/ WriteNoEffect
Spec == Init /\ [][Next]_vars

TypeOK == nums \in Seq(Nat) /\ recNum \in Nat
Numbered == /\ recNum = Len(nums) + 1
            /\ \A i \in 1..Len(nums) : nums[i] = i
Inv == TypeOK /\ Numbered

LEMMA InitInv == Init => Inv
  BY DEF Init, Inv, TypeOK, Numbered

LEMMA NextInv == Inv /\ [Next]_vars => Inv'
<1> SUFFICES ASSUME Inv, [Next]_vars PROVE Inv'
  OBVIOUS
<1>1. CASE UNCHANGED vars
  BY <1>1 DEF Inv, TypeOK, Numbered, vars
<1>2. CASE WriteNoEffect
  BY <1>2 DEF WriteNoEffect, Inv, TypeOK, Numbered, vars
<1>3. CASE WriteOk
  <2>0. nums \in Seq(Nat) /\ recNum \in Nat /\ recNum = Len(nums) + 1
    BY DEF Inv, TypeOK, Numbered
  <2>1. nums' = Append(nums, recNum) /\ recNum' = recNum + 1
    BY <1>3 DEF WriteOk
  <2>2. Len(nums') = Len(nums) + 1 /\ nums' \in Seq(Nat) /\ nums'[Len(nums) + 1] = recNum
    BY <2>0, <2>1
  <2>3. \A i \in 1..Len(nums) : nums'[i] = nums[i]
    BY <2>0, <2>1
  <2>4. \A i \in 1..Len(nums') : nums'[i] = i
    <3> TAKE i \in 1..Len(nums')
    <3>1. CASE i \in 1..Len(nums)
      BY <3>1, <2>3 DEF Inv, Numbered
    <3>2. CASE i = Len(nums) + 1
      BY <3>2, <2>2, <2>0
    <3> QED BY <3>1, <3>2, <2>2, <2>0
  <2>5. recNum' = Len(nums') + 1 /\ recNum' \in Nat
    BY <2>0, <2>1, <2>2
  <2> QED BY <2>2, <2>4, <2>5 DEF Inv, TypeOK, Numbered
<1> QED BY <1>1, <1>2, <1>3 DEF Next

THEOREM Safety == Spec => []Inv
<1>1. Init => Inv
  BY InitInv
<1>2. Inv /\ [Next]_vars => Inv'
  BY NextInv
<1> QED BY <1>1, <1>2, PTL DEF Spec
=============================================================================
