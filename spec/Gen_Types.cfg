
