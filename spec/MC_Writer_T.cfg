SPECIFICATION Spec
CONSTANTS
  MaxLen = 5
  TypeA = 8
  TypeX = 1
  CheckCrash = FALSE
  FXY <- SynXY
  FZM <- SynZM
  RXY <- SynRXY
  RZM <- SynRZM
INVARIANT Inv_Committed
INVARIANT Inv_DropEquivalent
INVARIANT Inv_Index
INVARIANT Inv_ReaderSeesWritten
INVARIANT Inv_HeaderBox
INVARIANT Inv_OneType
INVARIANT EmitHist
PROPERTY Act_CleanFinalizeSilent
PROPERTY Act_RejectedWriteSilent
PROPERTY Act_AppendOnly
CHECK_DEADLOCK FALSE
