--------------------------- MODULE Trace_Complete ---------------------------
(***************************************************************************)
(* Trace validation of the complete Writer / Reader (C08, row side of C10).*)
(* Every write_shape_and_record call is a step of Complete.tla; at drop    *)
(* TLC counts the records of the real .shp, the entries of the real .shx   *)
(* and the rows the real .dbf header declares, and compares the pairs the  *)
(* real Reader returned.                                                   *)
(*                                                                         *)
(* Known finding (only if known_findings.json lists it as open): a row     *)
(* refused by dbase after the shape was written.  The deviation action is  *)
(* taken nondeterministically; a run is explained by it only if the files  *)
(* show exactly its signature (shp = shx = pairs + refused rows, dbf =     *)
(* pairs), and then KNOWN-FINDING is printed.                              *)
(***************************************************************************)
EXTENDS Complete, EsriBytes, EsriTypes, TLC, Json, IOUtils

Rec  == ndJsonDeserialize(IOEnv.TRACE)
Meta == Rec[1]
TabXY == [v \in (-8)..8 |-> Meta.fxy[ToString(v)]]
TabZM == [v \in ((-8)..8) \cup {50} |-> Meta.fzm[ToString(v)]]
InvOf(F) == [b \in {F[v] : v \in DOMAIN F} |-> CHOOSE v \in DOMAIN F : F[v] = b]
RevXY == InvOf(TabXY)
RevZM == InvOf(TabZM)
INSTANCE EsriCodec WITH FXY <- TabXY, FZM <- TabZM, RXY <- RevXY, RZM <- RevZM

Known == JsonDeserialize(IOEnv.KNOWN).findings
DevId == "C08-row-rejected-after-shape"
DevOpen == \E i \in 1..Len(Known) : Known[i].id = DevId /\ Known[i].status = "open"

VARIABLES l, ndev
vars == << cvars, l, ndev >>
Ev(e) == l <= Len(Rec) /\ Rec[l].ev = e /\ l' = l + 1

TReset == /\ Ev("reset") /\ Rec[l].kind = "complete" /\ CReset /\ ndev' = 0

TPair ==
    /\ Ev("pair")
    /\ LET e == Rec[l]
           rowGood == e.kind \in {"o", "x"}
       IN  IF cstatus = "deviated"
           THEN \* nothing more is demanded of a deviated run, except that calls do not panic
                /\ e.res # "panic"
                /\ UNCHANGED cvars
                /\ ndev' = IF e.res = "dbase" THEN ndev + 1 ELSE ndev
                \* (count what a further refused row adds to the signature; accepted pairs are counted at drop)
           ELSE IF cType # 0 /\ cType # e.t
           THEN e.res = "mismatch" /\ PairShapeRejected(e.k, e.t) /\ UNCHANGED ndev
           ELSE IF rowGood
           THEN e.res = "ok" /\ PairOk(e.k, e.t) /\ UNCHANGED ndev
           ELSE /\ e.res = "dbase"
                /\ \/ PairRowRejected(e.k, e.t) /\ UNCHANGED ndev
                   \/ DevOpen /\ Dev_RowRejectedAfterShape(e.k, e.t) /\ ndev' = ndev + 1

U16(b, p) == b[p + 1] + 256 * b[p + 2]

TCDrop ==
    /\ Ev("cdrop") /\ UNCHANGED << cvars, ndev >>
    /\ LET e  == Rec[l]
           r  == StrictShp(e.shp)
           ns == Len(WalkRecs(e.shp, 100))
           nx == (Len(e.shx) - 100) \div 8
           nd == IF Len(e.dbf) >= 12 THEN RdLE(e.dbf, 4) ELSE 0
           hl == IF Len(e.dbf) >= 12 THEN U16(e.dbf, 8) ELSE 0
           rl == IF Len(e.dbf) >= 12 THEN U16(e.dbf, 10) ELSE 0
           n  == Len(pairs)
           want == [i \in 1..n |-> << pairs[i], pairs[i] >>]
       IN  IF cstatus = "ok"
           THEN /\ r.ok /\ ns = n /\ nx = n /\ nd = n                     \* C08: equal entry counts
                /\ (n > 0 => Len(e.dbf) = hl + n * rl + 1)                  \* the rows really are there
                /\ e.readback.err = ""
                /\ e.readback.pairs = want /\ e.readback.iter = want        \* shape i with row i, in order
                /\ ~e.typed.skipped => (e.typed.err = "" /\ e.typed.pairs = want)   \* and through the typed reads
           ELSE \* the known deviation explains the run only with exactly its signature
                /\ e.readback.err # "panic"
                /\ ns = nx /\ nd < ns
                /\ PrintT(<< "KNOWN-FINDING", DevId, "row refused by dbase after the shape was written: shp/shx hold more entries than the dbf" >>)

\* which of the three files the path constructors require and pick up (after the drop of a run by
\* path the files are removed and restored in every combination): the complete Reader requires the
\* .dbf (MissingDbf) and the .shp; both readers pick the .shx up when it is there and otherwise
\* answer MissingIndexFile (-2) to shape_count
TOpenPath ==
    /\ Ev("openpath") /\ UNCHANGED << cvars, ndev >>
    /\ LET e == Rec[l]
           has(x) == \E i \in 1..Len(e.present) : e.present[i] = x
           n == nShx
       IN  /\ e.res # "panic"
           /\ IF e.which = "Reader" /\ ~has("dbf") THEN e.res \in (IF has("shp") THEN {"missing_dbf"} ELSE {"missing_dbf", "io"})
              ELSE IF ~has("shp") THEN e.res = "io"
              ELSE /\ e.res = "ok"
                   /\ e.count = (IF has("shx") THEN (IF cstatus = "ok" THEN n ELSE e.count) ELSE -2)

\* A row the caller's own row type refuses is reported as an error for THAT pair; the iteration goes on and the
\* pairs after it are not shifted against each other (shape i still comes with row i)
TRowErr ==
    /\ Ev("rowerr") /\ UNCHANGED << cvars, ndev >>
    /\ LET e == Rec[l]
       IN  /\ e.panic = ""
           /\ Len(e.items) = e.n
           /\ \A i \in 1..e.n : e.items[i] = (IF i = e.hole THEN << -1, -1 >> ELSE << i, i >>)

Init == l = 2 /\ CInit /\ ndev = 0
Next == TReset \/ TPair \/ TCDrop \/ TOpenPath \/ TRowErr
Spec == Init /\ [][Next]_vars

Accepted ==
    LET d == TLCGet("stats").diameter
    IN  IF d = Len(Rec) THEN TRUE
        ELSE /\ PrintT(<< "REJECTED", d + 1, Rec[d + 1].ev >>)
             /\ FALSE
=============================================================================
