---------------------------- MODULE ShapeWriter ----------------------------
(***************************************************************************)
(* The shape writer as a state machine over two byte devices.              *)
(*                                                                         *)
(* Actions are the public calls: WriteShape (first / subsequent /          *)
(* rejected), Finalize (dirty / clean), Drop.  Every call is also given as *)
(* the list of I/O operations it issues (OpsOf...), which is what the      *)
(* crash model (any byte prefix of the operation sequence of each          *)
(* destination, C11) and the fault model (the k-th operation fails, C12)   *)
(* work on.  This is the PROPERTY-CONFORMANT writer: the header is         *)
(* reserved at offset 0 whatever happened before, a rejected write issues  *)
(* no operation and changes nothing, a clean finalize issues no operation. *)
(***************************************************************************)
EXTENDS Integers, Sequences, FiniteSets, EsriBytes, EsriTypes, EsriCodec

VARIABLES
    shp, shx,     \* devices: [bytes, pos, unflushed]
    hasShx,       \* is there an index destination
    hType,        \* 0 until the first accepted write, then fixed
    hLen,         \* running file length in words
    hBox,         \* running header box: [set, b, mreal]
    recNum,       \* number of the next record
    dirty,        \* something to commit since the last successful finalize
    written,      \* ghost: shapes accepted so far
    status,       \* "live" | "poisoned" | "dropped"
    shpOps, shxOps,   \* ghost: operations issued so far, per destination
    last          \* ghost: what the last call returned / did: [call, res, io, ...]

wvars == << shp, shx, hasShx, hType, hLen, hBox, recNum, dirty, written, status, shpOps, shxOps, last >>

Dev0 == [bytes |-> << >>, pos |-> 0, unflushed |-> FALSE]

(***************************************************************************)
(* Devices and operations                                                  *)
(*   [k |-> "w", data]   write at the current position                     *)
(*   [k |-> "s", to]     seek to an absolute offset (to = -1: the end)     *)
(*   [k |-> "f", n]      flush; n = number of shapes this flush commits    *)
(***************************************************************************)
OpW(d)  == [k |-> "w", data |-> d, to |-> 0, n |-> 0]
OpS(t)  == [k |-> "s", data |-> << >>, to |-> t, n |-> 0]
OpF(n)  == [k |-> "f", data |-> << >>, to |-> 0, n |-> n]

ApplyOp(d, op) ==
    CASE op.k = "w" -> [bytes |-> Patch(d.bytes, d.pos, op.data), pos |-> d.pos + Len(op.data), unflushed |-> TRUE]
      [] op.k = "s" -> [d EXCEPT !.pos = IF op.to = -1 THEN Len(d.bytes) ELSE op.to]
      [] op.k = "f" -> [d EXCEPT !.unflushed = FALSE]

RECURSIVE ApplyOps(_, _)
ApplyOps(d, ops) == IF ops = << >> THEN d ELSE ApplyOps(ApplyOp(d, Head(ops)), Tail(ops))

(***************************************************************************)
(* The running header box (C05) as the fold the writer performs            *)
(***************************************************************************)
Box0 == [set |-> FALSE, b |-> ZeroBox, mreal |-> FALSE]

\* real (data) measures of a shape
RealMs(s) == LET ps == AllPoints(s) IN { ps[i][4] : i \in { j \in 1..Len(ps) : ps[j][4] # NaNV /\ ps[j][4] > ND } }
SetMin(S) == CHOOSE x \in S : \A y \in S : x <= y
SetMax(S) == CHOOSE x \in S : \A y \in S : x >= y

GrowBox(hb, s) ==
    LET ps == AllPoints(s)
        t  == s.t
        ms == IF StoresM(t) THEN RealMs(s) ELSE {}
        nb == IF ps = << >> THEN hb.b
              ELSE IF ~hb.set
              THEN << MinD(ps, 1), MinD(ps, 2), MaxD(ps, 1), MaxD(ps, 2),
                      IF StoresZ(t) THEN MinD(ps, 3) ELSE 0, IF StoresZ(t) THEN MaxD(ps, 3) ELSE 0, 0, 0 >>
              ELSE << Min2(hb.b[1], MinD(ps, 1)), Min2(hb.b[2], MinD(ps, 2)),
                      Max2(hb.b[3], MaxD(ps, 1)), Max2(hb.b[4], MaxD(ps, 2)),
                      IF StoresZ(t) THEN Min2(hb.b[5], MinD(ps, 3)) ELSE 0,
                      IF StoresZ(t) THEN Max2(hb.b[6], MaxD(ps, 3)) ELSE 0, hb.b[7], hb.b[8] >>
        mb == IF ms = {} THEN << nb[7], nb[8] >>
              ELSE IF ~hb.mreal THEN << SetMin(ms), SetMax(ms) >>
              ELSE << Min2(nb[7], SetMin(ms)), Max2(nb[8], SetMax(ms)) >>
    IN  [set |-> hb.set \/ ps # << >>,
         b |-> << nb[1], nb[2], nb[3], nb[4], nb[5], nb[6], mb[1], mb[2] >>,
         mreal |-> hb.mreal \/ ms # {}]

\* the same box, declaratively (what C05 demands where it makes a claim; the
\* M range over the real measures only -- 0 when there is none -- is this
\* specification's NAMED CHOICE where the property is silent)
RECURSIVE FoldBox(_, _)
FoldBox(hb, S) == IF S = << >> THEN hb ELSE FoldBox(GrowBox(hb, Head(S)), Tail(S))
HeaderBoxSpec(S) == FoldBox(Box0, S).b

(***************************************************************************)
(* Operations of the calls                                                 *)
(***************************************************************************)
PlaceholderHeader(t) == EncodeHeader(50, t, ZeroBox)

ShpOpsOfWrite(first, t, num, s) ==
    (IF first THEN << OpS(0), OpW(PlaceholderHeader(t)) >> ELSE << >>)
    \o << OpW(EncodeRecord(num, s)) >>
ShxOpsOfWrite(first, t, off, s) ==
    (IF first THEN << OpS(0), OpW(PlaceholderHeader(t)) >> ELSE << >>)
    \o << OpW(BE32(off) \o BE32(ContentWords(s))) >>

ShpOpsOfFinalize(t, len, box, n) ==
    << OpS(0), OpW(EncodeHeader(len, t, box)), OpS(-1), OpF(n) >>
ShxOpsOfFinalize(t, box, n) ==
    << OpS(0), OpW(EncodeHeader(50 + 4 * n, t, box)), OpS(-1), OpF(n) >>

(***************************************************************************)
(* Actions                                                                 *)
(***************************************************************************)
WInit(withShx) ==
    /\ shp = Dev0 /\ shx = Dev0 /\ hasShx = withShx
    /\ hType = 0 /\ hLen = 50 /\ hBox = Box0 /\ recNum = 1 /\ dirty = TRUE
    /\ written = << >> /\ status = "live" /\ shpOps = << >> /\ shxOps = << >>
    /\ last = [call |-> "new", res |-> "ok", io |-> FALSE, req |-> 0, act |-> 0]

\* a fresh writer (a new run of a trace)
WReset(withShx) ==
    /\ shp' = Dev0 /\ shx' = Dev0 /\ hasShx' = withShx
    /\ hType' = 0 /\ hLen' = 50 /\ hBox' = Box0 /\ recNum' = 1 /\ dirty' = TRUE
    /\ written' = << >> /\ status' = "live" /\ shpOps' = << >> /\ shxOps' = << >>
    /\ last' = [call |-> "new", res |-> "ok", io |-> FALSE, req |-> 0, act |-> 0]

\* a shape of the file's type (or the first shape): accepted
WriteOk(s) ==
    /\ status = "live" /\ s.t # 0
    /\ hType = 0 \/ hType = s.t
    /\ LET first == hType = 0
           o1 == ShpOpsOfWrite(first, s.t, recNum, s)
           o2 == IF hasShx THEN ShxOpsOfWrite(first, s.t, hLen, s) ELSE << >>
       IN  /\ shp' = ApplyOps(shp, o1) /\ shpOps' = shpOps \o o1
           /\ shx' = ApplyOps(shx, o2) /\ shxOps' = shxOps \o o2
    /\ hType' = s.t
    /\ hLen' = hLen + 4 + ContentWords(s)
    /\ hBox' = GrowBox(hBox, s)
    /\ recNum' = recNum + 1
    /\ dirty' = TRUE
    /\ written' = Append(written, s)
    /\ last' = [call |-> "write", res |-> "ok", io |-> TRUE, req |-> 0, act |-> 0]
    /\ UNCHANGED << hasShx, status >>

\* a shape of another type: rejected before any byte, naming (file type, offered type)
WriteRejected(s) ==
    /\ status = "live" /\ s.t # 0
    /\ hType # 0 /\ hType # s.t
    /\ last' = [call |-> "write", res |-> "mismatch", io |-> FALSE, req |-> hType, act |-> s.t]
    /\ UNCHANGED << shp, shx, hasShx, hType, hLen, hBox, recNum, dirty, written, status, shpOps, shxOps >>

Finalize ==
    /\ status = "live"
    /\ IF dirty
       THEN LET n  == Len(written)
                o1 == ShpOpsOfFinalize(hType, hLen, hBox.b, n)
                o2 == IF hasShx THEN ShxOpsOfFinalize(hType, hBox.b, n) ELSE << >>
            IN  /\ shp' = ApplyOps(shp, o1) /\ shpOps' = shpOps \o o1
                /\ shx' = ApplyOps(shx, o2) /\ shxOps' = shxOps \o o2
                /\ dirty' = FALSE
                /\ last' = [call |-> "finalize", res |-> "ok", io |-> TRUE, req |-> 0, act |-> 0]
       ELSE /\ UNCHANGED << shp, shx, shpOps, shxOps, dirty >>
            /\ last' = [call |-> "finalize", res |-> "ok", io |-> FALSE, req |-> 0, act |-> 0]
    /\ UNCHANGED << hasShx, hType, hLen, hBox, recNum, written, status >>

\* dropping = finalize whose result is ignored, then the writer is gone
Drop ==
    /\ status = "live"
    /\ IF dirty
       THEN LET n  == Len(written)
                o1 == ShpOpsOfFinalize(hType, hLen, hBox.b, n)
                o2 == IF hasShx THEN ShxOpsOfFinalize(hType, hBox.b, n) ELSE << >>
            IN  /\ shp' = ApplyOps(shp, o1) /\ shpOps' = shpOps \o o1
                /\ shx' = ApplyOps(shx, o2) /\ shxOps' = shxOps \o o2
       ELSE UNCHANGED << shp, shx, shpOps, shxOps >>
    /\ dirty' = FALSE
    /\ status' = "dropped"
    /\ last' = [call |-> "drop", res |-> "ok", io |-> dirty, req |-> 0, act |-> 0]
    /\ UNCHANGED << hasShx, hType, hLen, hBox, recNum, written >>

(***************************************************************************)
(* Properties of the writer (invariants over the variables above)          *)
(***************************************************************************)
\* a point at which the files must be complete: just after a finalize, or dropped
AtCommit == status = "dropped" \/ (last.call = "finalize" /\ last.res = "ok")

\* C09/C02: complete, well-formed, exactly the shapes so far, flushed
Inv_Committed ==
    AtCommit =>
      LET r == StrictShp(shp.bytes)
      IN  /\ r.ok /\ r.shapes = written /\ r.t = hType
          /\ ~shp.unflushed /\ (hasShx => ~shx.unflushed)
          /\ shp.pos = Len(shp.bytes)

\* C09: the committed files are a function of the accepted shapes only (hence
\* equal to what "write the same shapes and drop" leaves)
Inv_DropEquivalent ==
    AtCommit =>
      /\ shp.bytes = EncodeShp(hType, HeaderBoxSpec(written), written)
      /\ hasShx => shx.bytes = EncodeShx(hType, HeaderBoxSpec(written), written)
      /\ ~hasShx => shx.bytes = << >>

\* C04: the index addresses exactly the records
Inv_Index ==
    (AtCommit /\ hasShx) =>
      LET r == StrictShp(shp.bytes)
          x == StrictShx(shx.bytes, shp.bytes)
      IN  x.ok /\ x.entries = r.recs /\ Len(x.entries) = Len(written)

\* C05: the folded header box is the declarative one and satisfies the property's relation
Inv_HeaderBox ==
    AtCommit => LET r == StrictShp(shp.bytes) IN r.ok /\ HeaderBoxOK(hType, written, r.box)

\* C10: one type per writer
Inv_OneType == \A i \in 1..Len(written) : written[i].t = hType

(***************************************************************************)
(* Crash model (C11).  What is persisted after a crash is, per             *)
(* destination and independently, the effect of a prefix of its operation  *)
(* sequence plus a byte prefix of the next write.                          *)
(***************************************************************************)
RECURSIVE BytesAfter(_, _, _)
\* the device after the first i operations (seeks included)
BytesAfter(ops, i, d) == IF i = 0 THEN d ELSE BytesAfter(Tail(ops), i - 1, ApplyOp(d, Head(ops)))

CutBytes(ops, i, c) ==
    LET d == BytesAfter(ops, i, Dev0)
    IN  IF c = 0 \/ i >= Len(ops) \/ ops[i + 1].k # "w" THEN d.bytes
        ELSE Patch(d.bytes, d.pos, SubSeq(ops[i + 1].data, 1, c))

\* number of shapes committed by the flushes among the first i operations
RECURSIVE CommittedAt(_, _)
CommittedAt(ops, i) ==
    IF i = 0 THEN 0
    ELSE IF ops[i].k = "f" THEN Max2(ops[i].n, CommittedAt(ops, i - 1)) ELSE CommittedAt(ops, i - 1)

CrashSafeAt(i, c, j, d) ==
    LET sb  == CutBytes(shpOps, i, c)
        xb  == CutBytes(shxOps, j, d)
        r0  == ReadFile(sb, FALSE, << >>)
        r1  == ReadFile(sb, TRUE, xb)
    IN  /\ ItemsArePrefix(r0.items, written)
        /\ Len(r0.items) >= CommittedAt(shpOps, i)
        /\ hasShx => ItemsArePrefix(r1.items, written)

=============================================================================
