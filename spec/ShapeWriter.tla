---------------------------- MODULE ShapeWriter ----------------------------
(***************************************************************************)
(* The shape writer as a state machine over two byte devices.              *)
(*                                                                         *)
(* Actions are the public calls: WriteShape (first / subsequent /          *)
(* rejected), Finalize (dirty / clean), Drop.  Every call is also given as *)
(* the list of I/O operations it issues (OpsOf...), which is what the      *)
(* crash model (any byte prefix of the operation sequence of each          *)
(* destination, C11) and the fault model (the k-th operation fails, C12)   *)
(* work on.  This is the PROPERTY-CONFORMANT writer: the header is         *)
(* reserved at offset 0 whatever happened before, a rejected write issues  *)
(* no operation and changes nothing, a clean finalize issues no operation. *)
(***************************************************************************)
EXTENDS Integers, Sequences, FiniteSets, EsriBytes, EsriTypes, EsriCodec, IoDevice

VARIABLES
    shp, shx,     \* devices: [bytes, pos, unflushed]
    hasShx,       \* is there an index destination
    hType,        \* 0 until the first accepted write, then fixed
    hLen,         \* running file length in words
    hBox,         \* running header box: [set, b, mreal]
    recNum,       \* number of the next record
    dirty,        \* something to commit since the last successful finalize
    written,      \* ghost: shapes accepted so far
    status,       \* "live" | "poisoned" | "dropped"
    shpOps, shxOps,   \* ghost: operations issued so far, per destination
    last          \* ghost: what the last call returned / did: [call, res, io, ...]

wvars == << shp, shx, hasShx, hType, hLen, hBox, recNum, dirty, written, status, shpOps, shxOps, last >>


(***************************************************************************)
(* The running header box (C05) as the fold the writer performs            *)
(***************************************************************************)
Box0 == [set |-> FALSE, b |-> ZeroBox, mreal |-> FALSE]

\* real (data) measures of a shape
RealMs(s) == LET ps == AllPoints(s) IN { ps[i][4] : i \in { j \in 1..Len(ps) : ps[j][4] # NaNV /\ ps[j][4] > ND } }
SetMin(S) == CHOOSE x \in S : \A y \in S : x <= y
SetMax(S) == CHOOSE x \in S : \A y \in S : x >= y

GrowBox(hb, s) ==
    LET ps == AllPoints(s)
        t  == s.t
        ms == IF StoresM(t) THEN RealMs(s) ELSE {}
        nb == IF ps = << >> THEN hb.b
              ELSE IF ~hb.set
              THEN << MinD(ps, 1), MinD(ps, 2), MaxD(ps, 1), MaxD(ps, 2),
                      IF StoresZ(t) THEN MinD(ps, 3) ELSE 0, IF StoresZ(t) THEN MaxD(ps, 3) ELSE 0, 0, 0 >>
              ELSE << Min2(hb.b[1], MinD(ps, 1)), Min2(hb.b[2], MinD(ps, 2)),
                      Max2(hb.b[3], MaxD(ps, 1)), Max2(hb.b[4], MaxD(ps, 2)),
                      IF StoresZ(t) THEN Min2(hb.b[5], MinD(ps, 3)) ELSE 0,
                      IF StoresZ(t) THEN Max2(hb.b[6], MaxD(ps, 3)) ELSE 0, hb.b[7], hb.b[8] >>
        mb == IF ms = {} THEN << nb[7], nb[8] >>
              ELSE IF ~hb.mreal THEN << SetMin(ms), SetMax(ms) >>
              ELSE << Min2(nb[7], SetMin(ms)), Max2(nb[8], SetMax(ms)) >>
    IN  [set |-> hb.set \/ ps # << >>,
         b |-> << nb[1], nb[2], nb[3], nb[4], nb[5], nb[6], mb[1], mb[2] >>,
         mreal |-> hb.mreal \/ ms # {}]

\* the same box, declaratively (what C05 demands where it makes a claim; the
\* M range over the real measures only -- 0 when there is none -- is this
\* specification's NAMED CHOICE where the property is silent)
RECURSIVE FoldBox(_, _)
FoldBox(hb, S) == IF S = << >> THEN hb ELSE FoldBox(GrowBox(hb, Head(S)), Tail(S))
HeaderBoxSpec(S) == FoldBox(Box0, S).b

(***************************************************************************)
(* Operations of the calls                                                 *)
(***************************************************************************)
PlaceholderHeader(t) == EncodeHeader(50, t, ZeroBox)

\* The operations of a call, in the order the writer issues them on its two
\* destinations: a sequence of [d |-> "shp" | "shx", op |-> operation].
At(d, op) == [d |-> d, op |-> op]

OpsOfWrite(first, withShx, t, num, off, s) ==
    (IF first THEN << At("shp", OpS(0)), At("shp", OpW(PlaceholderHeader(t))) >> ELSE << >>)
    \o (IF first /\ withShx THEN << At("shx", OpS(0)), At("shx", OpW(PlaceholderHeader(t))) >> ELSE << >>)
    \o << At("shp", OpW(EncodeRecord(num, s))) >>
    \o (IF withShx THEN << At("shx", OpW(BE32(off) \o BE32(ContentWords(s)))) >> ELSE << >>)

\* (after rewriting a header the writer returns to the end of what IT wrote -- an absolute offset -- not to the end
\* of the destination, which may hold older, longer content: the repaired behaviour, known_findings C11-reused)
OpsOfFinalize(withShx, t, len, box, n) ==
    << At("shp", OpS(0)), At("shp", OpW(EncodeHeader(len, t, box))), At("shp", OpS(2 * len)), At("shp", OpF(n)) >>
    \o (IF withShx
        THEN << At("shx", OpS(0)), At("shx", OpW(EncodeHeader(50 + 4 * n, t, box))), At("shx", OpS(100 + 8 * n)), At("shx", OpF(n)) >>
        ELSE << >>)

RECURSIVE OpsFor(_, _)
OpsFor(list, d) == IF list = << >> THEN << >>
                   ELSE (IF Head(list).d = d THEN << Head(list).op >> ELSE << >>) \o OpsFor(Tail(list), d)

\* the first k-1 operations of a call whose k-th operation fails; when that one is a
\* write, p of its bytes (0 <= p < length) reach the destination before the error
FailedPrefix(list, k, p) ==
    LET done == SubSeq(list, 1, k - 1)
        kth  == list[k]
    IN  IF kth.op.k = "w" /\ p > 0
        THEN Append(done, At(kth.d, OpW(SubSeq(kth.op.data, 1, p))))
        ELSE done

\* effect of a list of operations on the four device variables
IssueOps(list) ==
    LET o1 == OpsFor(list, "shp")
        o2 == OpsFor(list, "shx")
    IN  /\ shp' = ApplyOps(shp, o1) /\ shpOps' = shpOps \o o1
        /\ shx' = ApplyOps(shx, o2) /\ shxOps' = shxOps \o o2

(***************************************************************************)
(* Actions                                                                 *)
(***************************************************************************)
\* the destinations are handed over empty, their cursors anywhere (a cleared buffer that is being reused):
\* every call that starts a file seeks to offset 0 first
WInitAt(withShx, p1, p2) ==
    /\ shp = [Dev0 EXCEPT !.pos = p1] /\ shx = [Dev0 EXCEPT !.pos = p2] /\ hasShx = withShx
    /\ hType = 0 /\ hLen = 50 /\ hBox = Box0 /\ recNum = 1 /\ dirty = TRUE
    /\ written = << >> /\ status = "live" /\ shpOps = << >> /\ shxOps = << >>
    /\ last = [call |-> "new", res |-> "ok", io |-> FALSE, req |-> 0, act |-> 0]

WInit(withShx) ==
    /\ shp = Dev0 /\ shx = Dev0 /\ hasShx = withShx
    /\ hType = 0 /\ hLen = 50 /\ hBox = Box0 /\ recNum = 1 /\ dirty = TRUE
    /\ written = << >> /\ status = "live" /\ shpOps = << >> /\ shxOps = << >>
    /\ last = [call |-> "new", res |-> "ok", io |-> FALSE, req |-> 0, act |-> 0]

\* a fresh writer (a new run of a trace)
WReset(withShx) ==
    /\ shp' = Dev0 /\ shx' = Dev0 /\ hasShx' = withShx
    /\ hType' = 0 /\ hLen' = 50 /\ hBox' = Box0 /\ recNum' = 1 /\ dirty' = TRUE
    /\ written' = << >> /\ status' = "live" /\ shpOps' = << >> /\ shxOps' = << >>
    /\ last' = [call |-> "new", res |-> "ok", io |-> FALSE, req |-> 0, act |-> 0]

\* a shape of the file's type (or the first shape): accepted
WriteOk(s) ==
    /\ status = "live" /\ s.t # 0
    /\ hType = 0 \/ hType = s.t
    /\ IssueOps(OpsOfWrite(hType = 0, hasShx, s.t, recNum, hLen, s))
    /\ hType' = s.t
    /\ hLen' = hLen + 4 + ContentWords(s)
    /\ hBox' = GrowBox(hBox, s)
    /\ recNum' = recNum + 1
    /\ dirty' = TRUE
    /\ written' = Append(written, s)
    /\ last' = [call |-> "write", res |-> "ok", io |-> TRUE, req |-> 0, act |-> 0]
    /\ UNCHANGED << hasShx, status >>

\* a shape of another type: rejected before any byte, naming (file type, offered type)
WriteRejected(s) ==
    /\ status = "live" /\ s.t # 0
    /\ hType # 0 /\ hType # s.t
    /\ last' = [call |-> "write", res |-> "mismatch", io |-> FALSE, req |-> hType, act |-> s.t]
    /\ UNCHANGED << shp, shx, hasShx, hType, hLen, hBox, recNum, dirty, written, status, shpOps, shxOps >>

Finalize ==
    /\ status \in {"live", "torn", "poisoned"}
    /\ IF dirty
       THEN /\ IssueOps(OpsOfFinalize(hasShx, hType, hLen, hBox.b, Len(written)))
            /\ dirty' = FALSE
                /\ last' = [call |-> "finalize", res |-> "ok", io |-> TRUE, req |-> 0, act |-> 0]
       ELSE /\ UNCHANGED << shp, shx, shpOps, shxOps, dirty >>
            /\ last' = [call |-> "finalize", res |-> "ok", io |-> FALSE, req |-> 0, act |-> 0]
    /\ status' = IF status = "torn" THEN "live" ELSE status     \* a completed retry repairs a torn header
    /\ UNCHANGED << hasShx, hType, hLen, hBox, recNum, written >>

\* dropping = finalize whose result is ignored, then the writer is gone
Drop ==
    /\ status \in {"live", "torn", "poisoned"}
    /\ IF dirty
       THEN IssueOps(OpsOfFinalize(hasShx, hType, hLen, hBox.b, Len(written)))
       ELSE UNCHANGED << shp, shx, shpOps, shxOps >>
    /\ dirty' = FALSE
    /\ status' = IF status \in {"live", "torn"} THEN "dropped" ELSE "dropped-poisoned"
    /\ last' = [call |-> "drop", res |-> "ok", io |-> dirty, req |-> 0, act |-> 0]
    /\ UNCHANGED << hasShx, hType, hLen, hBox, recNum, written >>

(***************************************************************************)
(* Destination failures (C12).  The k-th operation of the call fails: the   *)
(* operations before it have taken effect, the call returns the I/O error.  *)
(* A failed write leaves a torn record: the specification demands nothing   *)
(* of the files afterwards ("poisoned") except that no call panics.  A      *)
(* failed finalize leaves dirty set, so finalize can simply be called again.*)
(***************************************************************************)
\* A write that fails before one byte has reached either destination, on a live writer whose file header is
\* already reserved, leaves the writer exactly where it was: the shape is NOT written, so it must not count for
\* the header box, the lengths or the record numbers either (C05, C02 after a failed write).
CleanFailure(k, p) == status = "live" /\ hType # 0 /\ k = 1 /\ p = 0

WriteFails(s, k, p) ==
    /\ status \in {"live", "torn"} /\ s.t # 0
    /\ hType = 0 \/ hType = s.t
    /\ LET list == OpsOfWrite(hType = 0, hasShx, s.t, recNum, hLen, s)
       IN  /\ k \in 1..Len(list)
           /\ IssueOps(FailedPrefix(list, k, p))
    /\ status' = IF CleanFailure(k, p) THEN status ELSE "poisoned"
    /\ last' = [call |-> "write", res |-> "io", io |-> TRUE, req |-> 0, act |-> 0]
    /\ UNCHANGED << hasShx, hType, hLen, hBox, recNum, dirty, written >>

FinalizeFails(k, p) ==
    /\ status \in {"live", "torn", "poisoned"} /\ dirty
    /\ LET list == OpsOfFinalize(hasShx, hType, hLen, hBox.b, Len(written))
       IN  /\ k \in 1..Len(list)
           /\ IssueOps(FailedPrefix(list, k, p))
    \* the header may be half rewritten and the cursor anywhere: "torn" until a finalize completes
    /\ status' = IF status = "poisoned" THEN "poisoned" ELSE "torn"
    /\ last' = [call |-> "finalize", res |-> "io", io |-> TRUE, req |-> 0, act |-> 0]
    /\ UNCHANGED << hasShx, hType, hLen, hBox, recNum, dirty, written >>

\* a write on a torn writer (failed finalize not yet retried): C12 says nothing about
\* it -- the record lands wherever the failed finalize left the cursor
WriteTorn(s) ==
    /\ status = "torn" /\ s.t # 0 /\ (hType = 0 \/ hType = s.t)
    /\ IssueOps(OpsOfWrite(hType = 0, hasShx, s.t, recNum, hLen, s))
    /\ status' = "poisoned"
    /\ last' = [call |-> "write", res |-> "ok", io |-> TRUE, req |-> 0, act |-> 0]
    /\ UNCHANGED << hasShx, hType, hLen, hBox, recNum, dirty, written >>

\* calls on a poisoned writer: nothing is demanded of the files any more
WritePoisoned(s) ==
    /\ status = "poisoned"
    /\ last' = [call |-> "write", res |-> "any", io |-> TRUE, req |-> 0, act |-> 0]
    /\ UNCHANGED << shp, shx, hasShx, hType, hLen, hBox, recNum, dirty, written, status, shpOps, shxOps >>

\* dropping a writer whose destination keeps failing: the error is swallowed
DropFails(k, p) ==
    /\ status \in {"live", "torn", "poisoned"} /\ dirty
    /\ LET list == OpsOfFinalize(hasShx, hType, hLen, hBox.b, Len(written))
       IN  /\ k \in 1..Len(list)
           /\ IssueOps(FailedPrefix(list, k, p))
    /\ status' = "dropped-failed"
    /\ last' = [call |-> "drop", res |-> "ok", io |-> TRUE, req |-> 0, act |-> 0]
    /\ UNCHANGED << hasShx, hType, hLen, hBox, recNum, dirty, written >>

(***************************************************************************)
(* Properties of the writer (invariants over the variables above)          *)
(***************************************************************************)
\* a point at which the files must be complete: just after a finalize, or dropped
AtCommit == status = "dropped" \/ (status = "live" /\ last.call = "finalize" /\ last.res = "ok")

\* C09/C02: complete, well-formed, exactly the shapes so far, flushed
Inv_Committed ==
    AtCommit =>
      LET r == StrictShp(shp.bytes)
      IN  /\ r.ok /\ r.shapes = written /\ r.t = hType
          /\ ~shp.unflushed /\ (hasShx => ~shx.unflushed)
          /\ shp.pos = Len(shp.bytes)

\* C09: the committed files are a function of the accepted shapes only (hence
\* equal to what "write the same shapes and drop" leaves)
Inv_DropEquivalent ==
    AtCommit =>
      /\ shp.bytes = EncodeShp(hType, HeaderBoxSpec(written), written)
      /\ hasShx => shx.bytes = EncodeShx(hType, HeaderBoxSpec(written), written)
      /\ ~hasShx => shx.bytes = << >>

\* C04: the index addresses exactly the records
Inv_Index ==
    (AtCommit /\ hasShx) =>
      LET r == StrictShp(shp.bytes)
          x == StrictShx(shx.bytes, shp.bytes)
      IN  x.ok /\ x.entries = r.recs /\ Len(x.entries) = Len(written)

\* C05: the folded header box is the declarative one and satisfies the property's relation
Inv_HeaderBox ==
    AtCommit => LET r == StrictShp(shp.bytes) IN r.ok /\ HeaderBoxOK(hType, written, r.box)

\* C01 across histories: at every commit point the reader model, with and without the index,
\* returns exactly the shapes accepted so far (up to the read-back relation)
Inv_ReaderSeesWritten ==
    AtCommit =>
      LET r0 == ReadFile(shp.bytes, FALSE, << >>)
          r1 == ReadFile(shp.bytes, TRUE, shx.bytes)
          Same(r) == /\ r.openErr = "" /\ r.err = "" /\ Len(r.items) = Len(written)
                     /\ \A i \in 1..Len(written) : ReadBackRel(written[i], r.items[i].shape, FALSE)
      IN  Same(r0) /\ (hasShx => Same(r1))

\* C10: one type per writer
Inv_OneType == \A i \in 1..Len(written) : written[i].t = hType

(***************************************************************************)
(* Crash safety (C11) over the crash model of IoDevice                      *)
(***************************************************************************)
CrashSafeAt(i, c, j, d) ==
    LET sb  == CutBytes(shpOps, i, c)
        xb  == CutBytes(shxOps, j, d)
        r0  == ReadFile(sb, FALSE, << >>)
        r1  == ReadFile(sb, TRUE, xb)
    IN  /\ ItemsArePrefix(r0.items, written)
        /\ Len(r0.items) >= CommittedAt(shpOps, i)
        /\ hasShx => ItemsArePrefix(r1.items, written)

=============================================================================
