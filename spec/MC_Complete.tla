----------------------------- MODULE MC_Complete -----------------------------
(***************************************************************************)
(* All histories of at most MaxLen calls over {pair ok, pair with a shape  *)
(* of another type, pair whose row is refused}: the counts stay equal and  *)
(* the pairs written are exactly the accepted calls in order.              *)
(***************************************************************************)
EXTENDS Complete, TLC
CONSTANT MaxLen
VARIABLE hist
vars == << cvars, hist >>
Init == CInit /\ hist = << >>
Next == /\ Len(hist) < MaxLen
        /\ LET k == Len(hist) + 1 IN
           \/ PairOk(k, 1) /\ hist' = Append(hist, "o")
           \/ PairOk(k, 8) /\ hist' = Append(hist, "O")
           \/ PairShapeRejected(k, 1) /\ hist' = Append(hist, "x")
           \/ PairShapeRejected(k, 8) /\ hist' = Append(hist, "X")
           \/ PairRowRejected(k, IF cType = 0 THEN 1 ELSE cType) /\ hist' = Append(hist, "m")
Spec == Init /\ [][Next]_vars
Inv_PairsAreAccepted == \A i \in 1..Len(pairs) : hist[pairs[i]] \in {"o", "O"}
Inv_Ordered == \A i \in 1..(Len(pairs) - 1) : pairs[i] < pairs[i + 1]
=============================================================================
