SPECIFICATION Spec
CONSTANTS
  MaxLen = 5
  TypeA = 8
  MaxFaults = 2
  FXY <- SynXY
  FZM <- SynZM
  RXY <- SynRXY
  RZM <- SynRZM
INVARIANT Inv_Committed
INVARIANT Inv_DropEquivalent
INVARIANT Inv_Index
INVARIANT Inv_ReaderSeesWritten
INVARIANT Inv_HeaderBox
INVARIANT Inv_FailedFinalizeRetryable
PROPERTY Act_FaultSurfaced
CHECK_DEADLOCK FALSE
