---------------------------- MODULE Trace_Codec ----------------------------
(***************************************************************************)
(* Trace specification of the codec family: every recorded case of the     *)
(* real library (shapes built by the public constructors, bytes the real   *)
(* writer left, what the real readers returned) must be explained by the   *)
(* layout specification EsriCodec.                                         *)
(*                                                                         *)
(*   case      the shapes of a case, abstracted from the constructed       *)
(*             values (C05: their boxes are the exact extremes)            *)
(*   written   raw .shp/.shx bytes after drop / finalize / by path         *)
(*             C02: StrictShp accepts them and decodes the case's shapes   *)
(*             C04: the index addresses exactly the records                *)
(*             C05: the header box                                         *)
(*   sizes     C18: announced = emitted = the specification's size         *)
(*   readback  C01: what a reading route returned                          *)
(*                                                                         *)
(* The meta line selects the property whose predicates are enforced        *)
(* (prop = "all" enforces every one).                                      *)
(***************************************************************************)
EXTENDS Integers, Sequences, FiniteSets, EsriBytes, EsriTypes, TLC, Json, IOUtils

Rec  == ndJsonDeserialize(IOEnv.TRACE)
Meta == Rec[1]
TabXY == [v \in (-8)..8 |-> Meta.fxy[ToString(v)]]
TabZM == [v \in ((-8)..8) \cup {50} |-> Meta.fzm[ToString(v)]]
Exact == Meta.exactxy

InvOf(F) == [b \in {F[v] : v \in DOMAIN F} |-> CHOOSE v \in DOMAIN F : F[v] = b]
RevXY == InvOf(TabXY)
RevZM == InvOf(TabZM)

INSTANCE EsriCodec WITH FXY <- TabXY, FZM <- TabZM, RXY <- RevXY, RZM <- RevZM
F == INSTANCE F64Bits

On(p) == Meta.prop = "all" \/ Meta.prop = p

VARIABLES l, cur
vars == << l, cur >>

Ev(e) == l <= Len(Rec) /\ Rec[l].ev = e /\ l' = l + 1

ShapeBoxOK(s) ==
    LET ps == AllPoints(s)
    IN  (IsMultiVertex(s.t) /\ ps # << >> /\ ~HasNaN(ps)) => s.box = BoxOfPoints(s.t, ps)

TCase ==
    /\ Ev("case")
    /\ "buildPanic" \notin DOMAIN Rec[l]
    /\ cur' = Rec[l]
    /\ On("C05") => \A i \in 1..Len(Rec[l].shapes) : ShapeBoxOK(Rec[l].shapes[i])

TWritten ==
    /\ Ev("written")
    /\ UNCHANGED cur
    /\ LET e == Rec[l]
           S == cur.shapes
           r == StrictShp(e.shp)
           x == StrictShx(e.shx, e.shp)
       IN  /\ On("C02") =>
                /\ r.ok /\ r.t = cur.t /\ Len(r.shapes) = Len(S)
                /\ \A i \in 1..Len(S) : SameGeometry(S[i], r.shapes[i], Exact)
           /\ On("C04") => x.ok /\ x.entries = WalkRecs(e.shp, 100) /\ Len(x.entries) = Len(S)
           /\ On("C05") => r.ok /\ HeaderBoxOK(cur.t, S, r.box)

TSizes ==
    /\ Ev("sizes")
    /\ UNCHANGED cur
    /\ LET e == Rec[l]
           S == cur.shapes
           w == WalkRecs(e.shp, 100)
       IN  On("C18") =>
             /\ Len(e.announced) = Len(S) /\ Len(w) = Len(S)
             /\ \A i \in 1..Len(S) :
                  /\ e.announced[i] = ContentSize(S[i])
                  /\ e.emitted[i] = e.announced[i]
                  /\ w[i][2] = (e.announced[i] + 4) \div 2

TReadback ==
    /\ Ev("readback")
    /\ UNCHANGED cur
    /\ LET e == Rec[l]
           S == cur.shapes
           g == e.res.items
       IN  On("C01") =>
             IF e.via = "nth"
             THEN \* it.nth(k) and the following next()s yield shapes k+1 .. n; count() = n; last() = shape n
                  /\ e.res.err = "" /\ e.res.openErr = ""
                  /\ Len(g) = Len(S) - e.skip
                  /\ \A i \in 1..Len(g) : ReadBackRel(S[i + e.skip], g[i], Exact)
                  /\ e.res.count = Len(S)
                  /\ Len(e.res.last) = 1 /\ ReadBackRel(S[Len(S)], e.res.last[1], Exact)
             ELSE IF e.random /\ ~e.withShx
             THEN e.res.err = "missing_index" /\ e.res.openErr = "" /\ g = << >>
             ELSE /\ e.res.err = "" /\ e.res.openErr = "" /\ Len(g) = Len(S)
                  /\ \A i \in 1..Len(S) : ReadBackRel(S[i], g[i], Exact)
                  /\ e.random => e.res.nonePastEnd

\* C18 on large shapes, from the counts alone (up to 2 000 parts, 10^5 points)
TBigSize ==
    /\ Ev("bigsize") /\ UNCHANGED cur
    /\ LET e == Rec[l]
           sz == CASE e.t = 1 -> 16 [] e.t = 21 -> 24 [] e.t = 11 -> 32
                   [] OTHER -> SizeWithM(e.t, IF HasParts(e.t) THEN e.nparts ELSE 0, e.npoints)
       IN  On("C18") =>
             /\ e.announced = sz /\ e.emitted = sz
             /\ e.words = (sz + 4) \div 2
             /\ e.fileLen = 100 + 8 + 4 + sz

\* ShapeReader::header() returns what the header of the file holds (C02 / C05: observed through the reader)
THeader ==
    /\ Ev("header") /\ UNCHANGED cur
    /\ LET e == Rec[l]
           r == StrictShp(e.shp)
       IN  (On("C02") \/ On("C05")) =>
             /\ e.ok /\ r.ok
             /\ e.words = Len(e.shp) \div 2 /\ e.t = r.t /\ e.version = 1000
             /\ e.box = r.box

\* beyond the listed properties: the accessors of a constructed value agree with its parts
TAccess ==
    /\ Ev("access") /\ UNCHANGED cur
    /\ LET e == Rec[l]
           s == e.shape
           o == e.obs
           np == Len(s.parts)
       IN  /\ "panic" \notin DOMAIN o
           /\ IsMultiVertex(s.t) =>
                /\ o.total = NumPoints(s) /\ o.past
                \* (rebuilding from into_inner() goes through the constructors again: with a NaN in a ring's
                \* end points they do not recognise the ring as closed, so that comparison is for NaN-free shapes)
                /\ Family(s.t) = "multipoint" =>
                      /\ o.first.parts = << << s.parts[1][1] >> >> /\ o.idx0 = o.first
                      /\ ~HasNaN(AllPoints(s)) => (o.inner.parts = s.parts /\ o.inner.box = s.box)
                /\ Family(s.t) # "multipoint" =>
                      /\ o.nparts = np /\ o.part0len = Len(s.parts[1])
                /\ (Family(s.t) \in {"polyline", "multipatch"} /\ ~HasNaN(AllPoints(s))) =>
                      (o.inner.parts = s.parts /\ o.inner.box = s.box /\ o.inner.kinds = s.kinds)
                /\ Family(s.t) = "polygon" =>
                      /\ o.ringlens = [i \in 1..np |-> Len(s.parts[i])]
                      /\ o.empties = [i \in 1..np |-> s.parts[i] = << >>]

\* beyond the listed properties: multipoint! / polyline! build what the constructors build
TMacro ==
    /\ Ev("macro") /\ UNCHANGED cur
    /\ Rec[l].tuple = Rec[l].built /\ Rec[l].struct = Rec[l].built

(***************************************************************************)
(* C01 and C05 over RAW doubles (F64Bits): every coordinate is its 8 bytes, *)
(* nothing is abstracted to ids.  o = the shape as constructed, g = as read *)
(* back.  Ring roles are not claimed here (no exact arithmetic on arbitrary *)
(* doubles): that is the id-level cases' and C16's business.               *)
(***************************************************************************)
ZeroBits == << 0, 0, 0, 0, 0, 0, 0, 0 >>
RawPoints(s) == Concat(s.parts)
Dim(ps, d) == [i \in 1..Len(ps) |-> ps[i][d]]
NoNaNIn(vs) == \A i \in 1..Len(vs) : ~F!IsNaN(vs[i])

RawReadBack(o, g) ==
    /\ g.t = o.t /\ Len(g.parts) = Len(o.parts)
    /\ g.box = o.box                                              \* bit-identical per-shape box
    /\ (o.t = 31 => g.kinds = o.kinds)
    /\ \A i \in 1..Len(o.parts) :
         /\ Len(g.parts[i]) = Len(o.parts[i])
         /\ \A j \in 1..Len(o.parts[i]) :
              LET a == o.parts[i][j]
                  c == g.parts[i][j]
              IN  /\ c[1] = a[1] /\ c[2] = a[2] /\ c[3] = a[3]      \* bit-identical X, Y, Z (NaN payloads, -0.0 included)
                  /\ c[4] = IF IsMultiVertex(o.t) /\ StoresM(o.t) THEN F!NormMBits(a[4]) ELSE a[4]

\* the box a constructor gave a multi-vertex shape: exact extremes, per dimension without NaN
RawShapeBoxOK(s) ==
    LET ps == RawPoints(s)
        DimOK(d, lo, hi) == NoNaNIn(Dim(ps, d)) => (F!IsMinOf(s.box[lo], Dim(ps, d)) /\ F!IsMaxOf(s.box[hi], Dim(ps, d)))
    IN  (IsMultiVertex(s.t) /\ ps # << >>) =>
          /\ DimOK(1, 1, 3) /\ DimOK(2, 2, 4)
          /\ StoresZ(s.t) => DimOK(3, 5, 6)
          /\ StoresM(s.t) => DimOK(4, 7, 8)

\* the header box of the file holding S (as HeaderBoxOK, on bytes)
RawHeaderOK(t, S, hb) ==
    LET ps == Concat([i \in 1..Len(S) |-> RawPoints(S[i])])
        ms == Dim(ps, 4)
        realM == \A i \in 1..Len(ms) : ~F!IsNoDataBits(ms[i])
    IN  ps # << >> =>
          /\ F!IsMinOf(hb[1], Dim(ps, 1)) /\ F!IsMinOf(hb[2], Dim(ps, 2))
          /\ F!IsMaxOf(hb[3], Dim(ps, 1)) /\ F!IsMaxOf(hb[4], Dim(ps, 2))
          /\ IF HasZ(t) THEN NoNaNIn(Dim(ps, 3)) => (F!IsMinOf(hb[5], Dim(ps, 3)) /\ F!IsMaxOf(hb[6], Dim(ps, 3)))
             ELSE hb[5] = ZeroBits /\ hb[6] = ZeroBits
          /\ IF HasM(t) THEN realM => (F!IsMinOf(hb[7], ms) /\ F!IsMaxOf(hb[8], ms))
             ELSE IF t = 31 THEN TRUE
             ELSE hb[7] = ZeroBits /\ hb[8] = ZeroBits

\* F64Bits against the hardware: the order, equality, NaN and no-data predicates agree with what the
\* processor says about the same 16 bytes (f64::min returns the non-NaN operand, either zero on a tie of zeros)
TF64 ==
    /\ Ev("f64") /\ UNCHANGED cur
    /\ \A k \in 1..Len(Rec[l].pairs) :
         LET p == Rec[l].pairs[k]
             ok == ~F!IsNaN(p.a) /\ ~F!IsNaN(p.b)
         IN  /\ F!IsNaN(p.a) = p.nanA
             /\ F!IsNoDataBits(p.a) = p.nodataA
             /\ ok => (F!Less(p.a, p.b) = p.lt /\ F!NumEq(p.a, p.b) = p.eq /\ F!LessEq(p.a, p.b) = p.le)
             /\ ~ok => (~p.lt /\ ~p.eq /\ ~p.le)
             /\ ok => (F!IsMinOf(p.minAB, << p.a, p.b >>))
             /\ (F!IsNaN(p.a) /\ ~F!IsNaN(p.b)) => p.minAB = p.b

TRaw ==
    /\ Ev("raw") /\ UNCHANGED cur
    /\ LET e == Rec[l]
       IN  /\ "buildPanic" \notin DOMAIN e /\ "writeFail" \notin DOMAIN e
           /\ On("C05") =>
                /\ \A i \in 1..Len(e.shapes) : RawShapeBoxOK(e.shapes[i])
                /\ Len(e.hdr) = 8 /\ RawHeaderOK(e.t, e.shapes, e.hdr)
           /\ On("C01") =>
                \A k \in 1..Len(e.reads) :
                    /\ e.reads[k].err = ""
                    /\ Len(e.reads[k].items) = Len(e.shapes)
                    /\ \A i \in 1..Len(e.shapes) : RawReadBack(e.shapes[i], e.reads[k].items[i])

Init == l = 2 /\ cur = [t |-> 0, shapes |-> << >>]
Next == TCase \/ TWritten \/ TSizes \/ TReadback \/ TBigSize \/ THeader \/ TAccess \/ TMacro \/ TRaw \/ TF64
Spec == Init /\ [][Next]_vars

\* acceptance: every line was consumed (line 1 is the meta line)
Accepted ==
    LET d == TLCGet("stats").diameter
    IN  IF d = Len(Rec) THEN TRUE
        ELSE /\ PrintT(<< "REJECTED", d + 1, Rec[d + 1].ev >>)
             /\ FALSE
=============================================================================
