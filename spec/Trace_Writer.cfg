SPECIFICATION Spec
CONSTANTS
  FXY <- TabXY
  FZM <- TabZM
  RXY <- TabRXY
  RZM <- TabRZM
POSTCONDITION Accepted
CHECK_DEADLOCK FALSE
