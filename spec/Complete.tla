------------------------------ MODULE Complete ------------------------------
(***************************************************************************)
(* The complete writer (shapes + attribute rows) as a state machine over   *)
(* entry counts (C08, and the row side of C10).                            *)
(*                                                                         *)
(* A call write_shape_and_record(shape k, row k) either                    *)
(*   PairOk            appends shape and row: all three counts grow by one *)
(*   PairShapeRejected the shape has another type: nothing is written, not *)
(*                     the row either (C10)                                *)
(*   PairRowRejected   the row is refused: nothing may be left behind, the *)
(*                     three counts stay equal                             *)
(* Dev_RowRejectedAfterShape is a NAMED DEVIATION of the code from this    *)
(* specification (the shape is already in the .shp/.shx when dbase refuses *)
(* the row); it is only enabled in trace validation when known_findings    *)
(* lists it, and marks the run "deviated": nothing more is demanded of it. *)
(***************************************************************************)
EXTENDS Integers, Sequences, FiniteSets

VARIABLES
    cType,      \* type of the file, 0 = not fixed yet
    nShp, nShx, nDbf,   \* records / index entries / rows the files hold
    pairs,      \* ghost: call numbers of the pairs written, in order
    cstatus,    \* "ok" | "deviated"
    clast       \* result of the last call

cvars == << cType, nShp, nShx, nDbf, pairs, cstatus, clast >>

CInit == /\ cType = 0 /\ nShp = 0 /\ nShx = 0 /\ nDbf = 0 /\ pairs = << >>
         /\ cstatus = "ok" /\ clast = "new"

CReset == /\ cType' = 0 /\ nShp' = 0 /\ nShx' = 0 /\ nDbf' = 0 /\ pairs' = << >>
          /\ cstatus' = "ok" /\ clast' = "new"

PairOk(k, t) ==
    /\ cType = 0 \/ cType = t
    /\ cType' = t
    /\ nShp' = nShp + 1 /\ nShx' = nShx + 1 /\ nDbf' = nDbf + 1
    /\ pairs' = Append(pairs, k)
    /\ clast' = "ok" /\ UNCHANGED cstatus

PairShapeRejected(k, t) ==
    /\ cType # 0 /\ cType # t
    /\ clast' = "mismatch"
    /\ UNCHANGED << cType, nShp, nShx, nDbf, pairs, cstatus >>

\* the row is refused (a field is missing, a value has the wrong field type)
PairRowRejected(k, t) ==
    /\ cType = 0 \/ cType = t
    /\ clast' = "dbase"
    /\ UNCHANGED << cType, nShp, nShx, nDbf, pairs, cstatus >>

Dev_RowRejectedAfterShape(k, t) ==
    /\ cType = 0 \/ cType = t
    /\ cType' = t
    /\ nShp' = nShp + 1 /\ nShx' = nShx + 1
    /\ cstatus' = "deviated"
    /\ clast' = "dbase"
    /\ UNCHANGED << nDbf, pairs >>

\* C08
Inv_Counts == cstatus = "ok" => (nShp = Len(pairs) /\ nShx = Len(pairs) /\ nDbf = Len(pairs))
=============================================================================
