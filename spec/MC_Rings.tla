------------------------------ MODULE MC_Rings ------------------------------
(***************************************************************************)
(* Every ring of 1..MaxV vertices on the 3 x 3 grid, with both declared    *)
(* roles, open or closed, with ends that differ only in Z: the conforming  *)
(* constructor of Rings.tla satisfies C16 (closure, orientation by exact   *)
(* area, vertex preservation) and is idempotent on rings of non-zero area. *)
(***************************************************************************)
EXTENDS Rings, TLC, FiniteSets

CONSTANT MaxV
VARIABLES ring, role
Grid == { << x, y, 0, 0 >> : x \in 0..2, y \in 0..2 }
RingsN(n) == [1..n -> Grid]
Init == /\ role \in {ROuter, RInner}
        /\ ring \in { AsSeq(f, 1) : f \in UNION { RingsN(n) : n \in 1..MaxV } }
                    \cup { << << 0, 0, 0, 0 >>, << 1, 2, 0, 0 >>, << 2, 0, 0, 0 >>, << 0, 0, 1, 0 >> >> }   \* ends differ in Z only
Next == UNCHANGED << ring, role >>
Spec == Init /\ [][Next]_<< ring, role >>

Inv_ConstructOK == RingOK(role, ring, role, Construct(role, ring), TRUE)
Inv_Idempotent ==
    LET o == Construct(role, ring)
    IN  RArea2(o) # 0 => Construct(role, o) = o
Inv_LosesNothing ==
    LET o == Construct(role, ring)
    IN  Len(o) = Len(ring) + (IF IsClosed(ring) THEN 0 ELSE 1)
=============================================================================
