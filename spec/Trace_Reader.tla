---------------------------- MODULE Trace_Reader ----------------------------
(***************************************************************************)
(* Trace validation of reader histories (C15, C04 reader side): every      *)
(* call of a recorded history on the real ShapeReader / Reader must be a   *)
(* step of ShapeReader.tla with the recorded return value.  The iteration  *)
(* step is nondeterministic (\E s \in A): TLC searches for a witness, so   *)
(* both readings the property allows for a repeated iteration are          *)
(* accepted and nothing else is.                                           *)
(***************************************************************************)
EXTENDS ShapeReader, TLC, Json, IOUtils

Rec  == ndJsonDeserialize(IOEnv.TRACE)
Meta == Rec[1]
On(p) == Meta.prop = "all" \/ Meta.prop = p

VARIABLES l, complete
vars == << rvars, l, complete >>

Ev(e) == l <= Len(Rec) /\ Rec[l].ev = e /\ l' = l + 1

TReset == /\ Ev("reset") /\ Rec[l].kind = "reader"
          /\ ROpen(Rec[l].n, Rec[l].withIdx)
          /\ complete' = Rec[l].complete

HintsOK(h, s) == \A k \in 1..Len(h) : SizeHintOK(h[k][1], h[k][2], (N - s) - (k - 1))

TIter ==
    /\ Ev("iter") /\ UNCHANGED complete
    /\ LET e == Rec[l]
       IN  /\ e.err = ""
           /\ \E s \in A :
                /\ IterFrom(s, e.lim)
                /\ out'.items = e.items /\ out'.ended = e.ended
                /\ e.rows = e.items                      \* C15/C08: shape p comes with row p
                /\ (On("C04") /\ hasIdx /\ ~complete) => HintsOK(e.hints, s)

TNth ==
    /\ Ev("nth") /\ UNCHANGED complete
    /\ ReadNth(Rec[l].i) /\ out'.res = Rec[l].res

TNthFail ==
    /\ Ev("nthfail") /\ UNCHANGED complete
    /\ ReadNthFails(Rec[l].i) /\ out'.res = Rec[l].res

TSeek ==
    /\ Ev("seek") /\ UNCHANGED complete
    /\ Seek(Rec[l].k) /\ out'.res = Rec[l].res

TCount ==
    /\ Ev("count") /\ UNCHANGED complete
    /\ Count /\ out'.res = Rec[l].res

Init == /\ l = 2 /\ N = 0 /\ hasIdx = FALSE /\ A = {0} /\ pend = -1 /\ complete = FALSE
        /\ out = [call |-> "open", items |-> << >>, ended |-> FALSE, res |-> 0]
Next == TReset \/ TIter \/ TNth \/ TNthFail \/ TSeek \/ TCount
Spec == Init /\ [][Next]_vars

Accepted ==
    LET d == TLCGet("stats").diameter
    IN  IF d = Len(Rec) THEN TRUE
        ELSE /\ PrintT(<< "REJECTED", d + 1, Rec[d + 1].ev >>)
             /\ FALSE
=============================================================================
