------------------------------ MODULE MC_Reader ------------------------------
(***************************************************************************)
(* Every history of length <= MaxLen over                                  *)
(*   iterate j items (j = 0, 1, 2, all), read_nth(i) (0..n), seek(k)       *)
(*   (0..n), shape_count                                                   *)
(* on a reader of NRec records, with and without an index.  The conforming *)
(* mechanism (MechIter) is the explored behaviour; Inv_MechRefines says it *)
(* stays inside what the property allows.  Each history is printed for the *)
(* replay on the real readers.                                             *)
(***************************************************************************)
EXTENDS ShapeReader, TLC

CONSTANTS NRec, MaxLen

VARIABLE hist
vars == << rvars, hist >>

Init == /\ N = NRec /\ hasIdx \in BOOLEAN /\ A = {0} /\ pend = -1
        /\ out = [call |-> "open", items |-> << >>, ended |-> FALSE, res |-> 0]
        /\ hist = << >>

Lims == {0, 1, 2, NRec + 1}

Next == /\ Len(hist) < MaxLen
        /\ \/ \E j \in Lims : MechIter(j) /\ hist' = Append(hist, << "i", j >>)
           \/ \E i \in 0..NRec : ReadNth(i) /\ hist' = Append(hist, << "n", i >>)
           \/ \E k \in 0..NRec : Seek(k) /\ hist' = Append(hist, << "s", k >>)
           \/ Count /\ hist' = Append(hist, << "c", 0 >>)

Spec == Init /\ [][Next]_vars

\* C15: random access returns record i whatever preceded; the count never changes
Act_NthIsNth == [][(out'.call = "nth" /\ hasIdx /\ out'.res >= 0) => out'.items = << out'.res >>]_vars
Act_CountStable == [][(out'.call = "count" /\ hasIdx) => out'.res = NRec]_vars
\* an iteration yields a contiguous run of records ending, if it ends, after the last one
Act_IterationIsSuffix ==
    [][out'.call = "iter" =>
         /\ \A i \in 1..Len(out'.items) : out'.items[i] = out'.res + i - 1
         /\ out'.ended => out'.res + Len(out'.items) = NRec]_vars

EmitHist == Len(hist) = MaxLen => PrintT(<< "RHIST", hasIdx, hist >>)
=============================================================================
