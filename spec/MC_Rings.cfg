SPECIFICATION Spec
CONSTANT MaxV = 4
INVARIANT Inv_ConstructOK
INVARIANT Inv_Idempotent
INVARIANT Inv_LosesNothing
CHECK_DEADLOCK FALSE
