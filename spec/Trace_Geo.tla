------------------------------ MODULE Trace_Geo ------------------------------
(***************************************************************************)
(* C20: every recorded conversion between shapefile shapes and geo-types   *)
(* geometries, and every geo-traits dimension/coordinate probe of a point, *)
(* against GeoConv.tla.                                                    *)
(***************************************************************************)
EXTENDS GeoConv, TLC, Json, IOUtils

Rec  == ndJsonDeserialize(IOEnv.TRACE)
ND == -5

VARIABLE l
Ev(e) == l <= Len(Rec) /\ Rec[l].ev = e /\ l' = l + 1

TReset == Ev("reset")

Fam(t) == CASE t \in {1, 11, 21} -> "point" [] t \in {8, 18, 28} -> "multipoint"
            [] t \in {3, 13, 23} -> "polyline" [] t \in {5, 15, 25} -> "polygon"
            [] t = 31 -> "multipatch" [] OTHER -> "null"
HasMeasure(t) == t \in {11, 13, 15, 18, 21, 23, 25, 28}
HasHeight(t) == t \in {11, 13, 15, 18}

\* the 2-D shape a conversion back from geo-types must yield: same X/Y and grouping;
\* heights are 0 and measures are no-data (geo-types has neither)
BackOK(o, b) ==
    /\ b.t = o.t /\ b.kinds = o.kinds
    /\ PartsXY(b.parts) = PartsXY(o.parts)
    /\ \A i \in 1..Len(b.parts) : \A j \in 1..Len(b.parts[i]) :
         /\ b.parts[i][j][3] = 0
         /\ b.parts[i][j][4] = (IF HasMeasure(o.t) THEN ND ELSE 0)

TShape2Geo ==
    /\ Ev("shape2geo")
    /\ LET e == Rec[l]
           s == e.shape
           want == GeometryOf(s.t, s.kinds)
       IN  /\ e.variant # "panic"
           /\ IF want = "" THEN e.refused                       \* refused with an error, not a panic
              ELSE /\ ~e.refused /\ e.variant = want
                   /\ CASE Fam(s.t) = "point" ->
                             /\ e.g = XY(s.parts[1][1]) /\ e.coord = e.g
                             /\ BackOK(s, e.back) /\ BackOK(s, e.backc)
                        [] Fam(s.t) = "multipoint" ->
                             /\ e.g = XYs(s.parts[1])
                             /\ BackOK(s, e.back)
                        [] Fam(s.t) = "polyline" ->
                             /\ e.g = PartsXY(s.parts)
                             /\ BackOK(s, e.back)
                        [] Fam(s.t) = "polygon" ->
                             OuterFirst(s.kinds) =>
                               /\ e.g = Group(PartsXY(s.parts), s.kinds, << >>)
                               /\ BackOK(s, e.back)
                        [] Fam(s.t) = "multipatch" ->
                             LET roles == [i \in 1..Len(s.kinds) |-> PatchRole(s.kinds[i])]
                             IN  OuterFirst(roles) => e.g = Group(PartsXY(s.parts), roles, << >>)

\* a geo-types geometry as a multi-geometry (what it is compared with after the round trip)
AsMulti(variant, g) ==
    CASE variant = "Polygon" -> << g >>
      [] variant = "LineString" -> << g >>
      [] variant = "Line" -> << g >>
      [] variant = "Point" -> g
      [] OTHER -> g

TGeo2Shape ==
    /\ Ev("geo2shape")
    /\ LET e == Rec[l]
           t == ShapeTypeOf(e.variant)
       IN  /\ ~e.panic
           /\ IF t = 0 THEN e.refused
              ELSE /\ ~e.refused /\ e.shape.t = t
                   /\ BoxXYOK(e.shape)                        \* C05: a converted shape carries its exact box
                   /\ e.variant2 = GeometryOf(t, << >>)
                   /\ CASE e.variant = "Point" -> e.g2 = e.g /\ XY(e.shape.parts[1][1]) = e.g
                        [] e.variant = "MultiPoint" -> e.g2 = e.g /\ XYs(e.shape.parts[1]) = e.g
                        [] e.variant \in {"Line", "LineString", "MultiLineString"} ->
                             /\ e.g2 = AsMulti(e.variant, e.g)
                             /\ PartsXY(e.shape.parts) = e.g2
                        [] e.variant \in {"Polygon", "MultiPolygon"} ->
                             \* same coordinates, same grouping into exterior + holes, up to ring orientation
                             /\ SameGrouping(AsMulti(e.variant, e.g), e.g2)
                             /\ Len(e.shape.parts) = Len(Flatten(AsMulti(e.variant, e.g)).rings)
                             /\ e.shape.kinds = Flatten(AsMulti(e.variant, e.g)).kinds

TDims ==
    /\ Ev("dims")
    /\ LET e == Rec[l]
       IN  /\ e.dim \in DimsAllowed(e.t) /\ e.pdim = e.dim
           /\ e.size = Len(FieldsOf(e.dim, e.p))
           /\ Len(e.vals) = e.size
           /\ \A i \in 1..e.size : e.vals[i] = FieldsOf(e.dim, e.p)[i]     \* no panic (-999), the matching field
           /\ e.xy = << e.p[1], e.p[2] >>

\* the points of a multipoint / polyline reached through its geo-traits view
PointTypeOf(t) == CASE t \in {8, 3} -> 1 [] t \in {28, 23} -> 21 [] t \in {18, 13} -> 11
TView ==
    /\ Ev("view")
    /\ LET e == Rec[l]
           s == e.shape
       IN  /\ ~e.panic
           /\ Len(e.coords) = Len(s.parts)
           /\ \A i \in 1..Len(s.parts) :
                /\ Len(e.coords[i]) = Len(s.parts[i])
                /\ \A j \in 1..Len(s.parts[i]) :
                     LET q == e.coords[i][j]
                     IN  /\ q.dim \in DimsAllowed(PointTypeOf(s.t))
                         /\ q.vals = FieldsOf(q.dim, s.parts[i][j])

Init == l = 2
Next == TReset \/ TShape2Geo \/ TGeo2Shape \/ TDims \/ TView
Spec == Init /\ [][Next]_l

Accepted ==
    LET d == TLCGet("stats").diameter
    IN  IF d = Len(Rec) THEN TRUE
        ELSE /\ PrintT(<< "REJECTED", d + 1, Rec[d + 1].ev >>)
             /\ FALSE
=============================================================================
