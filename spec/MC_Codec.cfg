SPECIFICATION Spec
CONSTANT Thorough = FALSE
INVARIANT T1_StrictInvertsEncode
INVARIANT T2_Sizes
INVARIANT T3_ReaderReadsBack
INVARIANT T4_OptionalM
INVARIANT T5_Index
INVARIANT T6_Truncation
CHECK_DEADLOCK FALSE
