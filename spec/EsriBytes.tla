----------------------------- MODULE EsriBytes -----------------------------
(***************************************************************************)
(* Byte strings and 32-bit integers.                                       *)
(*                                                                         *)
(* A file, a destination and a source are sequences over 0..255; offsets   *)
(* are 0-based (as in the ESRI whitepaper and in the code), TLA+ sequences *)
(* are 1-based, hence the "+ 1" below.  TLC's integers are 32-bit, so the  *)
(* two's-complement conversions never form 2^31 or 2^32.                   *)
(*                                                                         *)
(* All byte strings are built with \o, SubSeq, Append and RECURSIVE        *)
(* operators (eager tuples); function constructors are lazy in TLC and     *)
(* make nested patches exponential (DESIGN appendix B.1).                  *)
(***************************************************************************)
EXTENDS Integers, Sequences

Byte == 0..255

I32Min == (-2147483647) - 1
I32Max == 2147483647

\* low 31 bits of v, computed without overflow
U31(v) == IF v >= 0 THEN v ELSE (v + 2147483647) + 1

BE32(v) == LET u == U31(v)
           IN << (IF v >= 0 THEN 0 ELSE 128) + (u \div 16777216),
                 (u \div 65536) % 256, (u \div 256) % 256, u % 256 >>

LE32(v) == LET b == BE32(v) IN << b[4], b[3], b[2], b[1] >>

\* four bytes a (most significant) .. d -> signed 32-bit
FromBytes(a, b, c, d) ==
    IF a < 128 THEN ((a * 256 + b) * 256 + c) * 256 + d
    ELSE (((((a - 128) * 256 + b) * 256 + c) * 256 + d) - 2147483647) - 1

\* p = 0-based offset; the caller guarantees p + 4 <= Len(b)
RdBE(b, p) == FromBytes(b[p + 1], b[p + 2], b[p + 3], b[p + 4])
RdLE(b, p) == FromBytes(b[p + 4], b[p + 3], b[p + 2], b[p + 1])

Has(b, p, n) == p >= 0 /\ n >= 0 /\ p + n <= Len(b)

RECURSIVE Zeros(_)
Zeros(n) == IF n <= 0 THEN << >> ELSE << 0 >> \o Zeros(n - 1)

RECURSIVE Fill(_, _)
Fill(n, v) == IF n <= 0 THEN << >> ELSE << v >> \o Fill(n - 1, v)

\* slice of n bytes at 0-based offset p
Slice(b, p, n) == SubSeq(b, p + 1, p + n)

\* write d at 0-based offset pos of b (extending with zeros like a Cursor<Vec<u8>>)
Patch(b, pos, d) ==
    LET lb == Len(b)
        ld == Len(d)
        head == IF pos <= lb THEN SubSeq(b, 1, pos) ELSE b \o Zeros(pos - lb)
        tail == IF pos + ld < lb THEN SubSeq(b, pos + ld + 1, lb) ELSE << >>
    IN  head \o d \o tail

IsPrefixOf(a, b) == Len(a) <= Len(b) /\ SubSeq(b, 1, Len(a)) = a

\* Recursions over long sequences are BALANCED (depth log n): a recursion as deep as the sequence is
\* long makes every garbage collection of the JVM scan a stack of thousands of frames, which turned
\* a 3 300-point record into 15 s of decoding (DESIGN 10.2).
RECURSIVE ConcatR(_, _, _)
ConcatR(ss, lo, hi) ==      \* ss[lo] \o ... \o ss[hi]
    IF hi < lo THEN << >>
    ELSE IF hi = lo THEN ss[lo]
    ELSE LET mid == (lo + hi) \div 2 IN ConcatR(ss, lo, mid) \o ConcatR(ss, mid + 1, hi)
Concat(ss) == ConcatR(ss, 1, Len(ss))

RECURSIVE SumR(_, _, _)
SumR(s, lo, hi) ==
    IF hi < lo THEN 0
    ELSE IF hi = lo THEN s[lo]
    ELSE LET mid == (lo + hi) \div 2 IN SumR(s, lo, mid) + SumR(s, mid + 1, hi)
SumSeq(s) == SumR(s, 1, Len(s))

Min2(a, b) == IF a < b THEN a ELSE b
Max2(a, b) == IF a > b THEN a ELSE b

=============================================================================
