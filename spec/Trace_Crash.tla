---------------------------- MODULE Trace_Crash ----------------------------
(***************************************************************************)
(* Trace validation of crash reads (C11).  A workload event carries the    *)
(* operation logs the REAL writer issued on its two destinations (each     *)
(* operation tagged with the number of shapes accepted when it was issued) *)
(* and the shapes it accepted.  For a crashread event TLC rebuilds the     *)
(* persisted files from the logs with the crash model of ShapeWriter.tla   *)
(* (CutBytes: i whole operations plus c bytes of the next write), and      *)
(* checks on what the real reader returned that                            *)
(*   - the shapes returned before any error are a prefix of those written  *)
(*   - without an index, at least the shapes committed by the last         *)
(*     finalize whose .shp operations all lie inside the cut are returned  *)
(*   - nothing panicked                                                    *)
(* and that the reader model explains the outcome wherever it yields no    *)
(* error (diagnostic strength: equality of the shapes).                    *)
(***************************************************************************)
EXTENDS Integers, Sequences, FiniteSets, EsriBytes, EsriTypes, IoDevice, TLC, Json, IOUtils

Rec  == ndJsonDeserialize(IOEnv.TRACE)
Meta == Rec[1]
TabXY == [v \in (-8)..8 |-> Meta.fxy[ToString(v)]]
TabZM == [v \in ((-8)..8) \cup {50} |-> Meta.fzm[ToString(v)]]
InvOf(F) == [b \in {F[v] : v \in DOMAIN F} |-> CHOOSE v \in DOMAIN F : F[v] = b]
TabRXY == InvOf(TabXY)
TabRZM == InvOf(TabZM)

INSTANCE EsriCodec WITH FXY <- TabXY, FZM <- TabZM, RXY <- TabRXY, RZM <- TabRZM

VARIABLES l, cur
vars == << l, cur >>
Ev(e) == l <= Len(Rec) /\ Rec[l].ev = e /\ l' = l + 1

TWorkload == Ev("workload") /\ cur' = Rec[l]

GenuinePrefix(items, W) ==
    /\ Len(items) <= Len(W)
    /\ \A i \in 1..Len(items) : ReadBackRel(W[i], items[i], FALSE)

TCrashRead ==
    /\ Ev("crashread") /\ UNCHANGED cur
    /\ LET e  == Rec[l]
           sb == CutBytes(cur.shpOps, e.i, e.c)
           xb == CutBytes(cur.shxOps, e.j, e.d)
           g  == e.res.items
           m  == ReadFile(sb, e.withIdx, xb)
       IN  /\ Len(sb) = e.shpLen /\ (e.withIdx => Len(xb) = e.shxLen)    \* same persisted files on both sides
           /\ e.res.err # "panic"
           \* what is on the disk is read the same way through a path as through a handle
           /\ e.byPath.items = g /\ e.byPath.err = e.res.err /\ e.byPath.openErr = e.res.openErr
           /\ GenuinePrefix(g, cur.shapes)
           /\ ~e.withIdx => Len(g) >= CommittedAt(cur.shpOps, e.i)
           \* the reader model agrees on the shapes whenever it reads the same number of them
           /\ (Len(m.items) = Len(g)) => \A k \in 1..Len(g) : SameRead(m.items[k].shape, g[k])

\* a crash right after opening the writer by path over an older valid file, or after a few writes none of which
\* was flushed: whatever the reader makes of what is on the disk, it is a prefix of what THIS writer wrote -- nothing
TCrash0 ==
    /\ Ev("crash0") /\ UNCHANGED cur
    /\ LET e == Rec[l]
       IN  /\ ~e.panic /\ e.oldLen > 100
           /\ e.res.err # "panic" /\ e.res.openErr # "panic"
           /\ e.res.items = << >>

Init == l = 2 /\ cur = [shapes |-> << >>, shpOps |-> << >>, shxOps |-> << >>]
Next == TWorkload \/ TCrashRead \/ TCrash0
Spec == Init /\ [][Next]_vars

Accepted ==
    LET d == TLCGet("stats").diameter
    IN  IF d = Len(Rec) THEN TRUE
        ELSE /\ PrintT(<< "REJECTED", d + 1, Rec[d + 1].ev >>)
             /\ FALSE
=============================================================================
