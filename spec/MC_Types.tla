------------------------------ MODULE MC_Types ------------------------------
(***************************************************************************)
(* C19 on the specification: the table of EsriTypes is the ESRI table, and *)
(* the 14 singletons and 15 gaps (one of them empty) of IvLo/IvHi tile the 32-bit integers     *)
(* (TLC's integers are 32-bit, so the tiling is checked by adjacency       *)
(* arithmetic, not by enumeration; the 2^32 values themselves are          *)
(* enumerated by the harness against the real decoder, and Trace_Types     *)
(* validates the runs it reports).                                         *)
(***************************************************************************)
EXTENDS EsriTypes, TLC

VARIABLE i
Init == i = 1
Next == i < NIntervals /\ i' = i + 1
Spec == Init /\ [][Next]_i

\* adjacency: interval i+1 starts right after interval i; the first starts at
\* i32::MIN, the last ends at i32::MAX; no interval is empty except none
Inv_Tiling ==
    /\ IvLo(1) = I32Min /\ IvHi(NIntervals) = I32Max
    /\ IvEmpty(i) => (~IvValid(i) /\ IvLo(i) = IvHi(i) + 1)     \* only the gap between codes 0 and 1 is empty
    /\ i < NIntervals => IvLo(i + 1) = IvHi(i) + 1
    /\ IvValid(i) => (IvLo(i) = IvHi(i) /\ IvLo(i) \in Codes)
    /\ (~IvValid(i) /\ ~IvEmpty(i)) => (IvLo(i) \notin Codes /\ IvHi(i) \notin Codes)

\* the table: 14 codes, the families of the whitepaper
ASSUME Cardinality(Codes) = 14 /\ Len(CodeSeq) = 14
ASSUME \A k \in 1..13 : CodeSeq[k] < CodeSeq[k + 1]
ASSUME {CodeSeq[k] : k \in 1..14} = Codes
ASSUME {c \in Codes : HasZ(c)} = {11, 13, 15, 18, 31}
ASSUME {c \in Codes : HasM(c)} = {11, 13, 15, 18, 21, 23, 25, 28}
ASSUME {c \in Concrete : IsMultipart(c)} = {3, 5, 13, 15, 23, 25, 31}
ASSUME \A c \in Codes : (c \in ZTypes => TypeName(c) = TypeName(c - 10) \o "Z")
                     /\ (c \in MTypes => TypeName(c) = TypeName(c - 20) \o "M")
ASSUME \A a, b \in Codes : a # b => TypeName(a) # TypeName(b)
=============================================================================
