------------------------------ MODULE F64Bits ------------------------------
(***************************************************************************)
(* IEEE-754 binary64 values as they lie in a shapefile: 8 bytes, little    *)
(* endian.  The value ids of EsriCodec are ranks in a table of 17 doubles  *)
(* per trace; this module lets the specification speak about EVERY bit     *)
(* pattern (negative zero, subnormals, NaN payloads, the neighbours of the *)
(* NO_DATA constant): order, equality of numbers vs equality of bits, and  *)
(* the no-data normalisation of measures, all on the bytes themselves.     *)
(***************************************************************************)
EXTENDS Integers, Sequences

\* b[8] is the most significant byte: sign, then 11 exponent bits, then 52 mantissa bits
Sign(b) == b[8] >= 128
Exp(b)  == (b[8] % 128) * 16 + (b[7] \div 16)
MantZero(b) == b[7] % 16 = 0 /\ b[6] = 0 /\ b[5] = 0 /\ b[4] = 0 /\ b[3] = 0 /\ b[2] = 0 /\ b[1] = 0
IsNaN(b)  == Exp(b) = 2047 /\ ~MantZero(b)
IsInf(b)  == Exp(b) = 2047 /\ MantZero(b)
IsZero(b) == Exp(b) = 0 /\ MantZero(b)              \* +0.0 and -0.0

\* magnitude, most significant byte first
Mag(b) == << b[8] % 128, b[7], b[6], b[5], b[4], b[3], b[2], b[1] >>
RECURSIVE LexLess(_, _, _)
LexLess(x, y, i) == IF i > 8 THEN FALSE
                    ELSE IF x[i] < y[i] THEN TRUE
                    ELSE IF x[i] > y[i] THEN FALSE
                    ELSE LexLess(x, y, i + 1)
MagLess(a, b) == LexLess(Mag(a), Mag(b), 1)

\* a < b as numbers (neither is NaN); the two zeros are equal
Less(a, b) ==
    IF IsZero(a) /\ IsZero(b) THEN FALSE
    ELSE IF Sign(a) /\ ~Sign(b) THEN TRUE
    ELSE IF ~Sign(a) /\ Sign(b) THEN FALSE
    ELSE IF ~Sign(a) THEN MagLess(a, b) ELSE MagLess(b, a)
NumEq(a, b) == a = b \/ (IsZero(a) /\ IsZero(b))
LessEq(a, b) == Less(a, b) \/ NumEq(a, b)

\* -10e38, the NO_DATA constant of the format
NoDataBits == << 29, 74, 156, 244, 135, 130, 7, 200 >>
\* what a reader reports for a stored measure of a multi-vertex shape
IsNoDataBits(b) == IsNaN(b) \/ LessEq(b, NoDataBits)
NormMBits(b) == IF IsNoDataBits(b) THEN NoDataBits ELSE b

\* lo is a least element of the non-NaN values vs (as numbers), hi a greatest one
IsMinOf(lo, vs) == (\E i \in 1..Len(vs) : NumEq(lo, vs[i])) /\ (\A i \in 1..Len(vs) : LessEq(lo, vs[i]))
IsMaxOf(hi, vs) == (\E i \in 1..Len(vs) : NumEq(hi, vs[i])) /\ (\A i \in 1..Len(vs) : LessEq(vs[i], hi))
=============================================================================
