
