----------------------------- MODULE Gen_Foreign -----------------------------
(***************************************************************************)
(* The independent reference encoder for C03: TLC generates spec-conformant *)
(* .shp files in layouts the library's own writer never emits, from        *)
(* abstract models, and writes them (with the model they encode) to the    *)
(* case file IOEnv.OUT.  The harness feeds the bytes to the real reader;   *)
(* Trace_Foreign validates what it returned against the model.             *)
(*                                                                         *)
(* Per record: any of the 14 type codes (null records inside typed files), *)
(* the optional M block present or absent, PointZ with 24 or 32 bytes,     *)
(* zero parts, parts of zero and one vertex, zero points, counter-clockwise*)
(* first rings, a stored box unrelated to the data, record numbers 0, -1,  *)
(* repeated; per file: bytes after the declared length (including bytes    *)
(* that look like a further record).                                       *)
(***************************************************************************)
EXTENDS Integers, Sequences, FiniteSets, EsriBytes, EsriTypes, StdTables, TLC, Json, IOUtils, SequencesExt

INSTANCE EsriCodec WITH FXY <- StdXY, FZM <- StdZM, RXY <- StdRXY, RZM <- StdRZM

Thorough == IOEnv.SCOPE = "thorough"

\* vertex i of a shape of type t; sp = special placement (0 none, 1 specials in M, 2 NaN in Z)
Pt(t, i, sp) ==
    << ((i * 3) % 7) - 3, ((i * 5) % 7) - 3,
       IF StoresZ(t) THEN (IF sp = 2 /\ i = 2 THEN 50 ELSE (i % 4) - 1) ELSE 0,
       IF StoresM(t) THEN (IF sp = 1 THEN (CASE i % 4 = 0 -> -6 [] i % 4 = 1 -> -5 [] i % 4 = 2 -> -4 [] OTHER -> 50)
                           ELSE (i % 3) + 1) ELSE 0 >>

RECURSIVE Pts(_, _, _, _)
Pts(t, from, n, sp) == IF n = 0 THEN << >> ELSE << Pt(t, from, sp) >> \o Pts(t, from + 1, n - 1, sp)

RECURSIVE Parts(_, _, _, _)
Parts(t, lens, from, sp) ==
    IF lens = << >> THEN << >>
    ELSE << Pts(t, from, Head(lens), sp) >> \o Parts(t, Tail(lens), from + Head(lens), sp)

\* clockwise / counter-clockwise closed rings for the polygon family
RingCW(t, k)  == << Pt(t, 1, 0), << Pt(t, 1, 0)[1], Pt(t, 1, 0)[2] + k, Pt(t, 2, 0)[3], Pt(t, 2, 0)[4] >>,
                    << Pt(t, 1, 0)[1] + k, Pt(t, 1, 0)[2] + k, Pt(t, 3, 0)[3], Pt(t, 3, 0)[4] >>, Pt(t, 1, 0) >>
Rev(s) == [i \in 1..Len(s) |-> s[Len(s) + 1 - i]]
RECURSIVE ToSeq(_, _)
ToSeq(f, i) == IF i > Len(f) THEN << >> ELSE << f[i] >> \o ToSeq(f, i + 1)
RingCCW(t, k) == ToSeq(Rev(RingCW(t, k)), 1)

LenSeqs(t) ==
    CASE IsPointType(t) -> { << 1 >> }
      [] Family(t) = "multipoint" -> { << 0 >>, << 1 >>, << 3 >> }
      [] OTHER -> { << >>, << 0 >>, << 1 >>, << 3 >>, << 2, 0, 1 >>, << 4, 3 >> }

OddBox == << 5, 6, -5, -6, 7, -7, 8, -8 >>

\* box mode: 0 the exact box, 1 a box unrelated to the data, 2 the all-zero box (producers that never fill it in),
\* 3 three zeros and one non-zero
MkShapeB(t, parts, kseed, mode) ==
    LET all == Concat(parts)
        odd == << OddBox[1], OddBox[2], OddBox[3], OddBox[4],
                  IF StoresZ(t) THEN OddBox[5] ELSE 0, IF StoresZ(t) THEN OddBox[6] ELSE 0,
                  IF StoresM(t) THEN OddBox[7] ELSE 0, IF StoresM(t) THEN OddBox[8] ELSE 0 >>
    IN  [t |-> t, parts |-> parts,
         kinds |-> IF t = 31 THEN ToSeq([i \in 1..Len(parts) |-> (i + kseed) % 6], 1) ELSE << >>,
         box |-> IF IsPointType(t) THEN ZeroBox
                 ELSE IF mode = 2 THEN ZeroBox
                 ELSE IF mode = 3 THEN << 0, 0, 0, 5, 0, 0, 0, 0 >>
                 ELSE IF mode = 1 \/ all = << >> \/ HasNaN(all) THEN odd
                 ELSE BoxOfPoints(t, all)]
MkShape(t, parts, kseed, oddBox) == MkShapeB(t, parts, kseed, IF oddBox THEN 1 ELSE 0)

ShapesOf(t) ==
    { MkShapeB(t, Parts(t, lens, 1, sp), 0, mode) :
        lens \in LenSeqs(t), sp \in (IF Thorough THEN {0, 1, 2} ELSE {0, 1}), mode \in (IF Thorough THEN 0..3 ELSE 0..2) }
    \cup (IF Family(t) = "polygon"
          THEN { MkShape(t, << RingCCW(t, 2) >>, 0, FALSE),                      \* counter-clockwise first ring
                 MkShape(t, << RingCW(t, 3), RingCCW(t, 1) >>, 0, FALSE),
                 MkShape(t, << RingCCW(t, 1), RingCW(t, 3), RingCW(t, 2) >>, 0, TRUE) }
          ELSE {})
    \cup (IF t = 31 THEN { MkShape(t, Parts(t, << 3, 1, 0, 4 >>, 1, 0), k, FALSE) : k \in 0..5 } ELSE {})

\* one record: the shape, whether its optional M block is written, its record number
MRec(s, withM, num) == [shape |-> s, withM |-> withM, num |-> num]
NullRec(num) == [shape |-> NullShapeV, withM |-> TRUE, num |-> num]
HasOptionalM(t) == StoresM(t) /\ t # 21

RECURSIVE EncRecs(_)
EncRecs(rs) == IF rs = << >> THEN << >>
               ELSE EncodeRecordOpt(Head(rs).num, Head(rs).shape, Head(rs).withM) \o EncRecs(Tail(rs))

\* bytes after the declared length: junk, or something that looks like one more Point record
Trail(k) == CASE k = 0 -> << >>
              [] k = 1 -> << 255 >>
              [] k = 7 -> << 1, 2, 3, 4, 5, 6, 7 >>
              [] k = 28 -> BE32(9) \o BE32(10) \o LE32(1) \o StdXY[1] \o StdXY[2]

MkFile(t, recs, k) ==
    LET rb == EncRecs(recs)
    IN  [t |-> t, recs |-> recs, trail |-> k,
         shp |-> EncodeHeader(50 + Len(rb) \div 2, t, OddBox) \o rb \o Trail(k)]

Nums == {1, 0, -1, 77}

FilesOf(t) ==
    \* single records: every shape x M block x record number (number varies with the shape)
    { MkFile(t, << MRec(s, wm, n) >>, 0) :
         s \in ShapesOf(t), wm \in (IF HasOptionalM(t) THEN BOOLEAN ELSE {TRUE}),
         n \in (IF Thorough THEN Nums ELSE {0}) }
    \* several records, a null record among them, mixed M layouts, repeated numbers, trailing bytes
    \cup { MkFile(t, << MRec(s1, TRUE, 5), NullRec(5), MRec(s2, ~HasOptionalM(t), -1), MRec(s1, ~HasOptionalM(t), 2) >>, k) :
             s1 \in { MkShape(t, Parts(t, lens, 1, 1), 1, FALSE) : lens \in LenSeqs(t) },
             s2 \in { MkShape(t, Parts(t, lens, 4, 0), 2, TRUE) : lens \in LenSeqs(t) },
             k \in (IF Thorough THEN {0, 1, 7, 28} ELSE {7, 28}) }

AllFiles == UNION { FilesOf(t) : t \in Concrete }
            \cup { MkFile(0, << >>, 0), MkFile(0, << NullRec(1), NullRec(2) >>, 28), MkFile(5, << >>, 7) }

MetaLine == [ev |-> "meta", exactxy |-> TRUE,
             fxy |-> [k \in {ToString(v) : v \in DOMAIN StdXY} |-> StdXY[CHOOSE v \in DOMAIN StdXY : ToString(v) = k]],
             fzm |-> [k \in {ToString(v) : v \in DOMAIN StdZM} |-> StdZM[CHOOSE v \in DOMAIN StdZM : ToString(v) = k]]]

ASSUME /\ ndJsonSerialize(IOEnv.OUT, << MetaLine >> \o SetToSeq(AllFiles))
       /\ PrintT(<< "GENERATED", Cardinality(AllFiles) >>)
=============================================================================
