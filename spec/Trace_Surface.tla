---------------------------- MODULE Trace_Surface ----------------------------
(***************************************************************************)
(* Recorded calls of the public surface that no listed property covers     *)
(* (Surface.tla): Display of values, types and errors, box range           *)
(* accessors, Vec <-> multipoint, Vec -> ring, polyline -> polygon, ring   *)
(* accessors, and the table-info plumbing of the complete reader / writer. *)
(* Every event here is "beyond the listed properties": a rejection is      *)
(* reported as SPEC-MISMATCH, never as a VIOLATION of a property.          *)
(***************************************************************************)
EXTENDS Integers, Sequences, FiniteSets, EsriBytes, EsriTypes, TLC, Json, IOUtils

Rec  == ndJsonDeserialize(IOEnv.TRACE)
Meta == Rec[1]
TabXY == [v \in (-8)..8 |-> Meta.fxy[ToString(v)]]
TabZM == [v \in ((-8)..8) \cup {50} |-> Meta.fzm[ToString(v)]]
Exact == Meta.exactxy
InvOf(F) == [b \in {F[v] : v \in DOMAIN F} |-> CHOOSE v \in DOMAIN F : F[v] = b]
RevXY == InvOf(TabXY)
RevZM == InvOf(TabZM)
INSTANCE EsriCodec WITH FXY <- TabXY, FZM <- TabZM, RXY <- RevXY, RZM <- RevZM
S == INSTANCE Surface

VARIABLE l
Ev(e) == l <= Len(Rec) /\ Rec[l].ev = e /\ l' = l + 1

TReset == Ev("reset")

TDisplay ==
    /\ Ev("display")
    /\ LET e == Rec[l]
       IN  /\ e.concrete = S!DisplayOfConcrete(e.shape, e.xs, e.ys, e.zs, e.ms)
           /\ e.text = S!DisplayOfShape(e.shape, e.xs, e.ys, e.zs, e.ms)
           /\ e.typeName = TypeName(e.shape.t)

TRanges ==
    /\ Ev("ranges")
    /\ LET e == Rec[l]
           r == S!RangesOf(e.shape.t, e.shape.box)
       IN  e.x = r.x /\ e.y = r.y /\ e.z = r.z /\ e.m = r.m

TErrText ==
    /\ Ev("errtext")
    /\ LET e == Rec[l]
       IN  /\ e.kind \in {"invalid_file_code", "invalid_type", "mismatch", "missing_dbf", "missing_index", "invalid_size", "invalid_patch"}
           /\ e.text = S!ErrorText(e.kind, e.code, e.req, e.act)
           /\ e.kind = "invalid_file_code" => e.code # 9994
           /\ e.kind = "invalid_type" => e.code \notin Codes
           /\ e.kind = "mismatch" => e.req # e.act /\ e.req \in Codes /\ e.act \in Codes
           /\ e.kind = "invalid_patch" => e.code \notin PatchKinds

\* Multipoint::from(Vec) = Multipoint::new(Vec) (points kept, exact box); Vec::from(multipoint) = its points
TMpVec ==
    /\ Ev("mpvec")
    /\ LET e == Rec[l]
       IN  /\ e.fromVec.t = e.t
           /\ e.fromVec.parts = << e.points >>
           /\ e.fromVec.box = BoxOfPoints(e.t, e.points)
           /\ e.back = e.points

\* polygon <- polyline: one ring per part, vertices untouched (no closing), role from the vertex order, same box;
\* PolygonRing::from(Vec) likewise, and its accessors agree with each other
PolyT(t) == CASE t = 3 -> 5 [] t = 23 -> 25 [] t = 13 -> 15
TLinePoly ==
    /\ Ev("linepoly")
    /\ LET e == Rec[l]
           L == e.line
           P == e.polygon
       IN  /\ P.t = PolyT(e.t) /\ L.t = e.t
           /\ P.parts = L.parts
           /\ P.box = L.box
           /\ Len(P.kinds) = Len(L.parts) /\ Len(e.rings) = Len(L.parts)
           /\ \A i \in 1..Len(L.parts) :
                LET pts == L.parts[i]
                    r   == e.rings[i]
                IN  /\ Exact => (P.kinds[i] = S!RoleByOrder(pts) /\ r.role = S!RoleByOrder(pts))
                    /\ r.len = Len(pts) /\ r.empty = (pts = << >>)
                    /\ r.pts = pts /\ r.viaIndex = pts /\ r.viaAsRef = pts /\ r.inner = pts

\* Reader::header() is the .shp header; typed pair iteration and the generic one give the same rows in file order;
\* a table info taken from a reader makes a writer that produces the same three files
DbfHeaderLen(b) == b[9] + 256 * b[10]
TTableInfo ==
    /\ Ev("tableinfo")
    /\ LET e == Rec[l]
           rows == [i \in 1..e.n |-> i]
       IN  /\ e.panic = ""
           /\ e.headerSame /\ e.headerType = e.t /\ e.count = e.n
           /\ e.genericRows = rows /\ e.typedRows = rows /\ e.againRows = rows
           /\ e.genericTypes = [i \in 1..e.n |-> e.t]
           /\ e.afterSeek = (IF e.n >= 2 THEN [i \in 1..(e.n - 1) |-> i + 1] ELSE << >>)
           /\ e.shpSame /\ e.shxSame
           \* same field descriptors, same rows (the date of the last update in bytes 2..4 may differ)
           /\ Len(e.dbf1) = Len(e.dbf2)
           /\ DbfHeaderLen(e.dbf1) = DbfHeaderLen(e.dbf2)
           /\ SubSeq(e.dbf1, 5, Len(e.dbf1)) = SubSeq(e.dbf2, 5, Len(e.dbf2))

Init == l = 2
Next == TReset \/ TDisplay \/ TRanges \/ TErrText \/ TMpVec \/ TLinePoly \/ TTableInfo
Spec == Init /\ [][Next]_l

Accepted ==
    LET d == TLCGet("stats").diameter
    IN  IF d = Len(Rec) THEN TRUE
        ELSE /\ PrintT(<< "REJECTED", d + 1, Rec[d + 1].ev >>)
             /\ FALSE
=============================================================================
