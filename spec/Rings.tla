-------------------------------- MODULE Rings --------------------------------
(***************************************************************************)
(* What the polygon and multipatch constructors must do with a ring (C16). *)
(* A ring is a non-empty sequence of points <<x, y, z, m>>; equality of    *)
(* points is over all four fields (a ring whose ends differ only in Z or M *)
(* is open).  Area2 is twice the signed area with the whitepaper's sign    *)
(* (clockwise positive), exact on the integer ids.                         *)
(***************************************************************************)
EXTENDS Integers, Sequences

RECURSIVE RArea2From(_, _)
RArea2From(ps, i) ==
    IF i >= Len(ps) THEN 0
    ELSE (ps[i + 1][1] - ps[i][1]) * (ps[i + 1][2] + ps[i][2]) + RArea2From(ps, i + 1)
RArea2(ps) == RArea2From(ps, 1)

ROuter == 0
RInner == 1

\* id 51 in Z / M is -0.0: equal to 0.0 (id 0) as a number, different in its bits
NormV(v) == IF v = 51 THEN 0 ELSE v
NormPt(p) == << p[1], p[2], NormV(p[3]), NormV(p[4]) >>
\* closed = the first and the last vertex are equal AS NUMBERS in all four fields
IsClosed(r) == NormPt(r[1]) = NormPt(r[Len(r)])
CloseRing(r) == IF IsClosed(r) THEN r ELSE Append(r, r[1])
Reverse(r) == [i \in 1..Len(r) |-> r[Len(r) + 1 - i]]
RECURSIVE AsSeq(_, _)
AsSeq(f, i) == IF i > Len(f) THEN << >> ELSE << f[i] >> \o AsSeq(f, i + 1)
Rev(r) == AsSeq(Reverse(r), 1)

\* the orientation a role demands (nothing when the area is zero)
OrientedAs(role, r) ==
    LET a == RArea2(r) IN (a > 0 => role = ROuter) /\ (a < 0 => role = RInner)

\* C16 for one ring: `input` with declared `role` went in, (outRole, output) came out
RingOK(role, input, outRole, output, exact) ==
    LET c == CloseRing(input)
    IN  /\ outRole = role
        /\ output = c \/ output = Rev(c)          \* closed by one copy of the first vertex, then kept or reversed as a whole
        /\ IsClosed(output)
        /\ exact => OrientedAs(role, output)

\* ring-type patches (2..5) are closed and otherwise untouched; strips and fans (0, 1) are untouched
PatchOK(kind, input, outKind, output) ==
    /\ outKind = kind
    /\ output = IF kind \in {2, 3, 4, 5} THEN CloseRing(input) ELSE input

\* one conforming constructor: close, then reverse when the vertex order contradicts the role
Construct(role, input) ==
    LET c == CloseRing(input)
        a == RArea2(c)
    IN  IF (role = ROuter /\ a < 0) \/ (role = RInner /\ a > 0) THEN Rev(c) ELSE c
=============================================================================
