------------------------------- MODULE MC_Geo -------------------------------
(***************************************************************************)
(* Round-trip lemmas of GeoConv on role sequences of length <= MaxR:       *)
(* grouping an outer-first ring list and flattening it again gives the     *)
(* same rings with the same roles; every ring lands in exactly one polygon.*)
(***************************************************************************)
EXTENDS GeoConv, TLC
CONSTANT MaxR
VARIABLE kinds
Ring(i) == << << i, 0 >>, << i, 1 >>, << i + 1, 1 >>, << i, 0 >> >>
Rings(n) == [i \in 1..n |-> Ring(i)]
RECURSIVE SeqOfF(_, _)
SeqOfF(f, i) == IF i > Len(f) THEN << >> ELSE << f[i] >> \o SeqOfF(f, i + 1)
Init == kinds \in UNION { [1..n -> {GOuter, GInner}] : n \in 1..MaxR }
Next == UNCHANGED kinds
Spec == Init /\ [][Next]_kinds
K == SeqOfF(kinds, 1)
R == SeqOfF(Rings(Len(kinds)), 1)
Inv_RoundTrip == OuterFirst(K) =>
    LET f == Flatten(Group(R, K, << >>)) IN f.rings = R /\ SeqOfF(f.kinds, 1) = K
Inv_Count == LET g == Group(R, K, << >>)
             IN  Len(Flatten(g).rings) = Len(R) + (IF OuterFirst(K) THEN 0 ELSE 1)
Inv_SameGroupingReflexive == SameGrouping(Group(R, K, << >>), Group(R, K, << >>))
=============================================================================
