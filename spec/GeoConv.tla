------------------------------- MODULE GeoConv -------------------------------
(***************************************************************************)
(* geo-types conversions and the geo-traits view of points (C20).          *)
(* 2-D points are <<x, y>>; a geo polygon is [ext |-> ring, holes |->      *)
(* sequence of rings]; a shape is the [t, parts, kinds, box] of EsriCodec  *)
(* (only t, parts, kinds are used here).                                   *)
(***************************************************************************)
EXTENDS Integers, Sequences, FiniteSets

XY(p) == << p[1], p[2] >>
RECURSIVE XYs(_)
XYs(ps) == IF ps = << >> THEN << >> ELSE << XY(Head(ps)) >> \o XYs(Tail(ps))
RECURSIVE PartsXY(_)
PartsXY(parts) == IF parts = << >> THEN << >> ELSE << XYs(Head(parts)) >> \o PartsXY(Tail(parts))

GOuter == 0
GInner == 1

\* polygon -> multipolygon: each outer ring opens a polygon, the inner rings that follow
\* are its holes; an inner ring before any outer ring becomes a polygon with an empty
\* exterior (the documented odd case)
RECURSIVE Group(_, _, _)
Group(rings, kinds, acc) ==
    IF rings = << >> THEN acc
    ELSE LET r == Head(rings)
             k == Head(kinds)
         IN  IF k = GOuter
             THEN Group(Tail(rings), Tail(kinds), Append(acc, [ext |-> r, holes |-> << >>]))
             ELSE IF acc = << >>
             THEN Group(Tail(rings), Tail(kinds), << [ext |-> << >>, holes |-> << r >>] >>)
             ELSE Group(Tail(rings), Tail(kinds),
                        [acc EXCEPT ![Len(acc)] = [ext |-> acc[Len(acc)].ext, holes |-> Append(acc[Len(acc)].holes, r)]])

\* NB: an inner ring that comes first opens a polygon of its own, and an inner ring after it
\* joins THAT polygon only if no outer ring came in between (the code keeps no "last polygon"
\* for the odd case, so a second leading inner ring opens another polygon)
RECURSIVE GroupCode(_, _, _, _)
GroupCode(rings, kinds, acc, open) ==
    IF rings = << >> THEN acc
    ELSE LET r == Head(rings)
             k == Head(kinds)
         IN  IF k = GOuter
             THEN GroupCode(Tail(rings), Tail(kinds), Append(acc, [ext |-> r, holes |-> << >>]), TRUE)
             ELSE IF ~open
             THEN GroupCode(Tail(rings), Tail(kinds), Append(acc, [ext |-> << >>, holes |-> << r >>]), FALSE)
             ELSE GroupCode(Tail(rings), Tail(kinds),
                            [acc EXCEPT ![Len(acc)] = [ext |-> acc[Len(acc)].ext, holes |-> Append(acc[Len(acc)].holes, r)]], TRUE)

\* multipolygon -> ring list with roles: exterior then interiors per polygon
RECURSIVE Flatten(_)
Flatten(polys) ==
    IF polys = << >> THEN [rings |-> << >>, kinds |-> << >>]
    ELSE LET p == Head(polys)
             rest == Flatten(Tail(polys))
         IN  [rings |-> << p.ext >> \o p.holes \o rest.rings,
              kinds |-> << GOuter >> \o [i \in 1..Len(p.holes) |-> GInner] \o rest.kinds]

OuterFirst(kinds) == kinds # << >> /\ kinds[1] = GOuter

Reverse(r) == [i \in 1..Len(r) |-> r[Len(r) + 1 - i]]
RingEq(a, b) == a = b \/ (Len(a) = Len(b) /\ \A i \in 1..Len(a) : a[i] = b[Len(b) + 1 - i])
Closed2(r) == IF r = << >> \/ r[1] = r[Len(r)] THEN r ELSE Append(r, r[1])

\* same coordinates in the same grouping, up to the orientation of each ring
\* (geo-types closes rings on construction)
SameGrouping(A, B) ==
    /\ Len(A) = Len(B)
    /\ \A i \in 1..Len(A) :
         /\ RingEq(Closed2(A[i].ext), Closed2(B[i].ext))
         /\ Len(A[i].holes) = Len(B[i].holes)
         /\ \A j \in 1..Len(A[i].holes) : RingEq(Closed2(A[i].holes[j]), Closed2(B[i].holes[j]))

\* C05 for shapes obtained by conversion: the X/Y box is the extremes of the vertices
RECURSIVE FlatPts(_, _)
FlatPts(parts, i) == IF i > Len(parts) THEN << >> ELSE parts[i] \o FlatPts(parts, i + 1)
BoxXYOK(s) ==
    LET ps == FlatPts(s.parts, 1)
    IN  (ps # << >> /\ s.t \notin {1, 11, 21}) =>
          /\ \A i \in 1..Len(ps) : s.box[1] <= ps[i][1] /\ ps[i][1] <= s.box[3] /\ s.box[2] <= ps[i][2] /\ ps[i][2] <= s.box[4]
          /\ \E i \in 1..Len(ps) : ps[i][1] = s.box[1]
          /\ \E i \in 1..Len(ps) : ps[i][1] = s.box[3]
          /\ \E i \in 1..Len(ps) : ps[i][2] = s.box[2]
          /\ \E i \in 1..Len(ps) : ps[i][2] = s.box[4]

\* which geo-types Geometry variant a shape of type t converts to ("" = refused)
GeometryOf(t, kinds) ==
    CASE t = 0 -> ""
      [] t \in {1, 11, 21} -> "Point"
      [] t \in {8, 18, 28} -> "MultiPoint"
      [] t \in {3, 13, 23} -> "MultiLineString"
      [] t \in {5, 15, 25} -> "MultiPolygon"
      [] t = 31 -> IF \E i \in 1..Len(kinds) : kinds[i] \in {0, 1} THEN "" ELSE "MultiPolygon"
\* which shape type a Geometry variant converts to (0 = refused)
ShapeTypeOf(variant) ==
    CASE variant = "Point" -> 1
      [] variant \in {"Line", "LineString", "MultiLineString"} -> 3
      [] variant \in {"Polygon", "MultiPolygon"} -> 5
      [] variant = "MultiPoint" -> 8
      [] OTHER -> 0

\* multipatch ring kinds as polygon roles: outer/first ring open a polygon, inner/ring are holes
PatchRole(k) == IF k \in {2, 4} THEN GOuter ELSE GInner

\* geo-traits: the fields a point exposes for a dimension kind
FieldsOf(dim, p) ==
    CASE dim = "Xy"   -> << p[1], p[2] >>
      [] dim = "Xyz"  -> << p[1], p[2], p[3] >>
      [] dim = "Xym"  -> << p[1], p[2], p[4] >>
      [] dim = "Xyzm" -> << p[1], p[2], p[3], p[4] >>
DimsAllowed(t) == CASE t = 1 -> {"Xy"} [] t = 21 -> {"Xy", "Xym"} [] t = 11 -> {"Xyz", "Xyzm"}
=============================================================================
