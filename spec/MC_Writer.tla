------------------------------ MODULE MC_Writer ------------------------------
(***************************************************************************)
(* Bounded exhaustive exploration of the writer: every history over        *)
(*   a  write shape A of the file type        b  write a larger shape B    *)
(*   x  write a shape of ANOTHER type         F  finalize                  *)
(* up to MaxLen calls, with and without an index destination, ending in    *)
(* drop.  (A history that starts with x makes x's type the file type, and  *)
(* then a and b are the rejected ones.)                                    *)
(*                                                                         *)
(* The history is part of the state, so TLC enumerates every history; each *)
(* terminal state prints its history, which the harness replays on the     *)
(* real writer (spec -> implementation direction).                         *)
(***************************************************************************)
EXTENDS ShapeWriter, TLC

CONSTANTS MaxLen, TypeA, TypeX, CheckCrash

Ids == (-8)..8
SynXY == [v \in Ids |-> << v + 100, 1, 2, 3, 4, 5, 6, 7 >>]
SynZM == [v \in Ids \cup {50} |-> << v + 100, 9, 2, 3, 4, 5, 6, 7 >>]
InvOf(F) == [b \in {F[v] : v \in DOMAIN F} |-> CHOOSE v \in DOMAIN F : F[v] = b]
SynRXY == InvOf(SynXY)
SynRZM == InvOf(SynZM)

VARIABLE hist
vars == << wvars, hist >>

\* a shape of type t with n vertices per part (np parts), values shifted by k
MkPts(t, n, k) == [i \in 1..n |-> << ((i + k) % 5) - 2, ((2 * i + k) % 7) - 3,
                                    IF StoresZ(t) THEN (i + k) % 3 ELSE 0,
                                    IF StoresM(t) THEN ((i * k) % 4) - 1 ELSE 0 >>]
Tup(f) == [i \in 1..Len(f) |-> f[i]]
RECURSIVE SeqOf(_, _)
SeqOf(f, i) == IF i > Len(f) THEN << >> ELSE << f[i] >> \o SeqOf(f, i + 1)

Mk(t, n, k) ==
    LET pts == SeqOf(MkPts(t, n, k), 1)
        parts == IF IsPointType(t) THEN << << pts[1] >> >>
                 ELSE IF HasParts(t) THEN << pts, SeqOf(MkPts(t, 2, k + 1), 1) >> ELSE << pts >>
        all == Concat(parts)
    IN  [t |-> t, parts |-> parts,
         kinds |-> IF t = 31 THEN << 2, 0 >> ELSE << >>,
         box |-> IF IsPointType(t) THEN ZeroBox ELSE BoxOfPoints(t, all)]

ShapeA == Mk(TypeA, 2, 1)
ShapeB == Mk(TypeA, 3, 2)
ShapeX == Mk(TypeX, 2, 3)

Sym(c) == CASE c = "a" -> ShapeA [] c = "b" -> ShapeB [] c = "x" -> ShapeX

\* the cursors of the (empty) destinations when the writer receives them
StartPositions == {0, 37}
Init == /\ \E w \in BOOLEAN, p \in StartPositions : WInitAt(w, p, IF w THEN p ELSE 0)
        /\ hist = << >>

DoWrite(c) ==
    /\ Len(hist) < MaxLen
    /\ WriteOk(Sym(c)) \/ WriteRejected(Sym(c))
    /\ hist' = Append(hist, c)

DoFinalize == /\ Len(hist) < MaxLen /\ Finalize /\ hist' = Append(hist, "F")
DoDrop == /\ Drop /\ hist' = Append(hist, "D")

Next == \/ \E c \in {"a", "b", "x"} : DoWrite(c)
        \/ DoFinalize
        \/ DoDrop

Spec == Init /\ [][Next]_vars

\* action properties (C09, C10), checked on every step TLC takes
Act_CleanFinalizeSilent ==
    [][(last'.call = "finalize" /\ ~dirty) => (shpOps' = shpOps /\ shxOps' = shxOps /\ shp' = shp /\ shx' = shx)]_vars
Act_RejectedWriteSilent ==
    [][(last'.call = "write" /\ last'.res = "mismatch") =>
          /\ shpOps' = shpOps /\ shxOps' = shxOps /\ shp' = shp /\ shx' = shx
          /\ written' = written /\ hLen' = hLen /\ recNum' = recNum /\ dirty' = dirty /\ hType' = hType
          /\ last'.req = hType /\ last'.act # hType]_vars
Act_AppendOnly ==
    [][IsPrefixOf(written, written')]_vars

\* C11 inside the model: every crash state of every terminal behaviour
Inv_CrashSafe ==
    (CheckCrash /\ status = "dropped") =>
       \A i \in 0..Len(shpOps) :
         \A c \in (IF i < Len(shpOps) /\ shpOps[i + 1].k = "w" THEN 0..(Len(shpOps[i + 1].data) - 1) ELSE {0}) :
            \* the index destination: at every operation boundary, and at every byte of its header rewrites
            \A j \in (IF hasShx THEN 0..Len(shxOps) ELSE {0}) :
              \A d \in (IF hasShx /\ j < Len(shxOps) /\ shxOps[j + 1].k = "w"
                        THEN (IF Len(shxOps[j + 1].data) = 100 THEN {0, 1, 27, 28, 35, 99} ELSE 0..7) ELSE {0}) :
                 CrashSafeAt(i, c, j, d)

\* emit each complete history once, for the replay on the real code
EmitHist == status = "dropped" => PrintT(<< "HIST", hasShx, hist >>)

=============================================================================
