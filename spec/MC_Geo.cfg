SPECIFICATION Spec
CONSTANT MaxR = 6
INVARIANT Inv_RoundTrip
INVARIANT Inv_Count
INVARIANT Inv_SameGroupingReflexive
CHECK_DEADLOCK FALSE
