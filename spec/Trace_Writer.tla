---------------------------- MODULE Trace_Writer ----------------------------
(***************************************************************************)
(* Trace validation of writer histories: is the recorded execution of the  *)
(* real ShapeWriter a behaviour of ShapeWriter.tla, and do the real bytes  *)
(* observed at the commit points satisfy the properties?                   *)
(*                                                                         *)
(* Every event is one action of the specification (WriteOk /               *)
(* WriteRejected / Finalize / Drop) conjoined with what the harness        *)
(* observed: the call's result, whether it touched a destination at all,   *)
(* the real bytes of both destinations at finalize and at drop, flush      *)
(* marks, and the bytes of the plain run (write the accepted shapes, drop).*)
(* The verdicts are the properties' relations on the REAL bytes            *)
(* (StrictShp, StrictShx, HeaderBoxOK, equality with the plain run); the   *)
(* model's own bytes only drive the state (hType, dirty, written).         *)
(***************************************************************************)
EXTENDS ShapeWriter, TLC, Json, IOUtils

Rec  == ndJsonDeserialize(IOEnv.TRACE)
Meta == Rec[1]
TabXY == [v \in (-8)..8 |-> Meta.fxy[ToString(v)]]
TabZM == [v \in ((-8)..8) \cup {50} |-> Meta.fzm[ToString(v)]]
InvOf(F) == [b \in {F[v] : v \in DOMAIN F} |-> CHOOSE v \in DOMAIN F : F[v] = b]
TabRXY == InvOf(TabXY)
TabRZM == InvOf(TabZM)
Exact == Meta.exactxy

On(p) == Meta.prop = "all" \/ Meta.prop = p

VARIABLES l,
          observed      \* FALSE for runs on files created by path: the I/O of a single call cannot be seen there
vars == << wvars, l, observed >>

Ev(e) == l <= Len(Rec) /\ Rec[l].ev = e /\ l' = l + 1

TReset == /\ Ev("reset") /\ Rec[l].kind \in {"writer", "fault"}
          /\ WReset(Rec[l].withShx)
          /\ observed' = (IF "observed" \in DOMAIN Rec[l] THEN Rec[l].observed ELSE TRUE)

\* the real files hold a complete shapefile with exactly the shapes accepted so far
CompleteFiles(e, W, t) ==
    LET r == StrictShp(e.shp)
        x == StrictShx(e.shx, e.shp)
    IN  /\ (On("C09") \/ On("C10") \/ On("C12") \/ On("C02")) =>
             /\ r.ok /\ r.t = t /\ Len(r.shapes) = Len(W)
             /\ \A i \in 1..Len(W) : SameGeometry(W[i], r.shapes[i], Exact)
             /\ e.flushedShp /\ (hasShx => e.flushedShx)
             /\ (~hasShx => e.shx = << >>)
        /\ (On("C04") /\ hasShx) => x.ok /\ x.entries = WalkRecs(e.shp, 100) /\ Len(x.entries) = Len(W)
        /\ On("C05") => r.ok /\ HeaderBoxOK(t, W, r.box)

TWrite ==
    /\ Ev("write") /\ UNCHANGED observed
    /\ LET e == Rec[l]
           s == e.shape
       IN  \/ /\ e.res = "ok"
              /\ WriteOk(s)
              /\ e.io
           \/ /\ e.res = "mismatch"
              /\ WriteRejected(s)
              \* C10: names (file type, offered type), touches no destination
              /\ e.req = hType /\ e.act = s.t
              /\ ~e.io /\ e.fxShp = << >> /\ e.fxShx = << >>

TFinalize ==
    /\ Ev("finalize") /\ UNCHANGED observed
    /\ LET e == Rec[l]
       IN  /\ e.res = "ok"
           /\ Finalize
           /\ (On("C09") /\ observed) => (e.io = dirty)          \* nothing new to commit => no I/O at all
           \* (a call without I/O leaves the files of the previous commit point, not shipped again)
           /\ e.io => CompleteFiles(e, written, hType)

TDrop ==
    /\ Ev("drop") /\ UNCHANGED observed
    /\ LET e == Rec[l]
       IN  /\ e.res = "ok"
           /\ Drop
           /\ CompleteFiles(e, written, hType)
           \* C09 / C10: the bytes are those of "write the accepted shapes and drop"
           /\ (On("C09") \/ On("C10") \/ On("C12")) => (e.shp = e.plainShp /\ e.shx = e.plainShx)

\* consumption by write_shapes([a, b]): two writes and a drop in one call
TConsume ==
    /\ Ev("consume") /\ UNCHANGED observed
    /\ LET e == Rec[l]
           W2 == written \o e.shapes
           t2 == e.shapes[1].t
       IN  /\ e.res = "ok"
           /\ hType = 0 \/ hType = t2
           /\ CompleteFiles(e, W2, t2)
           /\ (On("C09") \/ On("C10")) => (e.shp = e.plainShp /\ e.shx = e.plainShx)
           /\ written' = W2 /\ status' = "dropped" /\ hType' = t2 /\ dirty' = FALSE
           /\ last' = [call |-> "consume", res |-> "ok", io |-> TRUE, req |-> 0, act |-> 0]
           /\ UNCHANGED << shp, shx, hasShx, hLen, hBox, recNum, shpOps, shxOps >>

\* consumption by write_shapes([x, x]) on a file of another type: refused at once (C10), and the writer the call
\* consumed is dropped inside it: the files are complete and equal to those of the accepted shapes alone
TConsumeRefused ==
    /\ Ev("consumex") /\ UNCHANGED observed
    /\ LET e == Rec[l]
       IN  /\ hType # 0 /\ hType # e.tx
           /\ e.res = "mismatch" /\ e.req = hType /\ e.act = e.tx
           /\ Drop
           /\ CompleteFiles(e, written, hType)
           /\ (On("C09") \/ On("C10") \/ On("C12")) => (e.shp = e.plainShp /\ e.shx = e.plainShx)

(***************************************************************************)
(* Fault runs (C12): each call event says whether the injected failure     *)
(* fired during the call.  A call during which it fired must return that   *)
(* very error (never success, never a panic); a call during which nothing  *)
(* failed must succeed.  After a failed finalize the destination is healed *)
(* and finalize is called again: the files must then be complete, and the  *)
(* dropped writer must leave the bytes of the undisturbed run.  Which      *)
(* operation failed does not matter for the state that is tracked, so the  *)
(* failing actions are taken with k = 1, p = 0.                            *)
(***************************************************************************)
\* C18 in any writer state: a write_shape call that succeeded emitted one record whose header announces the
\* content length of THAT shape (plus, for the first one, the 100 bytes reserved for the file header)
RecordFrameOK(fx, s) ==
    LET w   == (ContentSize(s) + 4) \div 2
        n   == 8 + 2 * w
        tot == SumSeq([i \in 1..Len(fx) |-> Len(fx[i].bytes)])
    IN  /\ Len(fx) >= 1
        /\ tot \in {n, n + 100}
        /\ LET b == fx[Len(fx)].bytes
           IN  Len(b) >= n /\ RdBE(b, Len(b) - n + 4) = w

TFWrite ==
    /\ Ev("fwrite") /\ UNCHANGED observed
    /\ (On("C18") /\ Rec[l].res = "ok") => RecordFrameOK(Rec[l].fxShp, Rec[l].shape)
    /\ LET e == Rec[l]
       IN  IF status = "poisoned"
           THEN /\ WritePoisoned(e.shape)
                /\ e.res # "panic" /\ (e.fired => e.res = "io_injected")
           ELSE IF e.fired
           THEN /\ e.res = "io_injected"
                \* which operation failed matters only in that a failure before any byte was emitted is clean
                /\ IF hType # 0 /\ status = "live" /\ e.fxShp = << >> /\ e.fxShx = << >>
                   THEN WriteFails(e.shape, 1, 0)
                   ELSE IF hType # 0 THEN WriteFails(e.shape, 1, 1) ELSE WriteFails(e.shape, 1, 0)
           ELSE e.res = "ok" /\ (WriteOk(e.shape) \/ WriteTorn(e.shape))

TFFinalize ==
    /\ Ev("ffinalize") /\ UNCHANGED observed
    /\ LET e == Rec[l]
       IN  IF e.fired
           THEN e.res = "io_injected" /\ FinalizeFails(1, 0)
           ELSE /\ e.res = "ok" /\ Finalize
                /\ status' = "live" => CompleteFiles(e, written, hType)

THeal == Ev("heal") /\ UNCHANGED << wvars, observed >>

TFDrop ==
    /\ Ev("fdrop") /\ UNCHANGED observed
    /\ LET e == Rec[l]
       IN  /\ e.res = "ok"                                    \* dropping never panics
           /\ IF e.fired THEN DropFails(1, 0)
              ELSE /\ Drop
                   /\ status' = "dropped" =>
                        /\ CompleteFiles(e, written, hType)
                        /\ e.shp = e.plainShp /\ e.shx = e.plainShx

\* C10 where the .shp approaches 2 GiB (2^30 words): every big record was accepted, and the shape of another type
\* that would not even fit is refused for its TYPE (polyline file, multipoint offered)
TGiga ==
    /\ Ev("giga") /\ UNCHANGED << wvars, observed >>
    /\ LET e == Rec[l]
       IN  /\ e.ok = e.n /\ e.words <= 1073741824 /\ e.words + e.otherWords > 1073741824
           /\ e.res = "mismatch" /\ e.req = 3 /\ e.act = 8

\* A long export (thousands of records) on destinations whose every flush fails, as one event of counts: the
\* arithmetic of proofs/WriterCounters and the fault rule of C12, without the byte-level model.
TLongFlush ==
    /\ Ev("longflush") /\ UNCHANGED << wvars, observed >>
    /\ LET e == Rec[l]
           rec == 4 + e.w                        \* words per record
       IN  \* a write during which a failure was delivered returned that failure; none was delivered otherwise
           /\ \A k \in 1..Len(e.bad) : (e.bad[k].fired /\ e.bad[k].res = "io_injected")
           /\ e.nOk + Len(e.bad) = e.n
           \* finalize reports the failing flush, and completes once the destination works
           /\ e.fin1.fired /\ e.fin1.res = "io_injected"
           /\ ~e.fin2.fired /\ e.fin2.res = "ok"
           /\ e.flushedShp /\ e.flushedShx
           \* lengths and index entries for the records that were accepted
           /\ e.declared = 50 + e.nOk * rec /\ e.shpLen = 2 * e.declared
           /\ e.shxDeclared = 50 + 4 * e.nOk /\ e.shxLen = 2 * e.shxDeclared
           /\ (e.nOk = e.n) => \A k \in 1..Len(e.entries) :
                  /\ e.entries[k][2] = 50 + (e.entries[k][1] - 1) * rec
                  /\ e.entries[k][3] = e.w

Init == /\ l = 2 /\ WInit(TRUE) /\ observed = TRUE
Next == TReset \/ TWrite \/ TFinalize \/ TDrop \/ TConsume \/ TConsumeRefused \/ TLongFlush \/ TGiga \/ TFWrite \/ TFFinalize \/ THeal \/ TFDrop
Spec == Init /\ [][Next]_vars

Accepted ==
    LET d == TLCGet("stats").diameter
    IN  IF d = Len(Rec) THEN TRUE
        ELSE /\ PrintT(<< "REJECTED", d + 1, Rec[d + 1].ev >>)
             /\ FALSE
=============================================================================
