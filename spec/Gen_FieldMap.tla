----------------------------- MODULE Gen_FieldMap -----------------------------
(***************************************************************************)
(* C07 / C17: the input space "a valid file with one 32-bit field replaced *)
(* by a boundary value" is derived from the specification: for template    *)
(* files of every type, the reference encoder yields the bytes and this    *)
(* module the FIELD MAP (offset, endianness, role of every 32-bit field of  *)
(* the .shp and the .shx) and the list of boundary values.  The harness    *)
(* applies every (field, value) replacement to the bytes and exercises the *)
(* real reader; Trace_Arbitrary validates the outcomes.                    *)
(* For C17 the size algebra is used backwards: CountValues gives, for a    *)
(* huge count c, the record length and header length that keep every       *)
(* consistency check of a size-only validator satisfied.                   *)
(***************************************************************************)
EXTENDS Integers, Sequences, FiniteSets, EsriBytes, EsriTypes, StdTables, TLC, Json, IOUtils, SequencesExt

INSTANCE EsriCodec WITH FXY <- StdXY, FZM <- StdZM, RXY <- StdRXY, RZM <- StdRZM

Pt(t, i) == << ((i * 3) % 7) - 3, ((i * 5) % 7) - 3,
               IF StoresZ(t) THEN (i % 4) - 1 ELSE 0, IF StoresM(t) THEN (i % 3) + 1 ELSE 0 >>
RECURSIVE Pts(_, _, _)
Pts(t, from, n) == IF n = 0 THEN << >> ELSE << Pt(t, from) >> \o Pts(t, from + 1, n - 1)

Shape(t, k) ==
    LET pts == Pts(t, 3 * k, IF IsPointType(t) THEN 1 ELSE k + 1)
        parts == IF HasParts(t) THEN << pts, Pts(t, 3 * k + 1, 2) >> ELSE << pts >>
    IN  [t |-> t, parts |-> parts,
         kinds |-> IF t = 31 THEN << 2, 0 >> ELSE << >>,
         box |-> IF IsPointType(t) THEN ZeroBox ELSE BoxOfPoints(t, Concat(parts))]

Fld(file, off, be, role) == [file |-> file, off |-> off, be |-> be, role |-> role]

\* fields of the record of shape s whose header starts at byte p
RecFields(s, p, k) ==
    LET t == s.t
        np == Len(s.parts)
        c == p + 12
    IN  << Fld("shp", p, TRUE, "record number"), Fld("shp", p + 4, TRUE, "content length"),
           Fld("shp", p + 8, FALSE, "record type") >>
        \o (IF IsPointType(t) THEN << >>
            ELSE IF HasParts(t)
            THEN << Fld("shp", c + 32, FALSE, "part count"), Fld("shp", c + 36, FALSE, "point count") >>
                 \o [i \in 1..np |-> Fld("shp", c + 40 + 4 * (i - 1), FALSE, "part offset")]
                 \o (IF HasKinds(t) THEN [i \in 1..np |-> Fld("shp", c + 40 + 4 * np + 4 * (i - 1), FALSE, "patch kind")] ELSE << >>)
            ELSE << Fld("shp", c + 32, FALSE, "point count") >>)

RECURSIVE AllRecFields(_, _, _)
AllRecFields(shapes, p, k) ==
    IF shapes = << >> THEN << >>
    ELSE RecFields(Head(shapes), p, k) \o AllRecFields(Tail(shapes), p + 8 + 2 * ContentWords(Head(shapes)), k + 1)

Put(file, off, be, val) == [file |-> file, off |-> off, be |-> be, val |-> val]

\* C17: for the one-record template of type t, counts that no data backs, with the record
\* length and the header length a size-only validator expects for them
UnbackedFor(t, s) ==
    LET np == Len(s.parts)
        nq == NumPoints(s)
        c  == 112                                  \* first content byte of record 1
        cntOff == IF HasParts(t) THEN c + 36 ELSE c + 32
        PointCombo(q) == LET sz == SizeWithM(t, IF HasParts(t) THEN np ELSE 0, q)
                             w == (sz + 4) \div 2
                         IN  << Put("shp", cntOff, FALSE, q), Put("shp", 104, TRUE, w), Put("shp", 24, TRUE, 54 + w) >>
        PartCombo(p)  == LET sz == SizeWithM(t, p, nq)
                             w == (sz + 4) \div 2
                         IN  << Put("shp", c + 32, FALSE, p), Put("shp", 104, TRUE, w), Put("shp", 24, TRUE, 54 + w) >>
    IN  IF IsPointType(t) THEN << >>
        ELSE << PointCombo(1000000), PointCombo(30000000), PointCombo(60000) >>
             \o (IF HasParts(t) THEN << PartCombo(1000000), PartCombo(100000000), PartCombo(70000) >> ELSE << >>)

\* an index whose header declares far more entries than the file holds
Unbacked(t) == UnbackedFor(t, Shape(t, 1))

\* small counts with the lengths that make them consistent: zero parts, zero points, one of each,
\* with and without the optional M block (the data behind them is whatever the template holds)
SmallCombos(t) ==
    LET c == 112
        Combo(p, q, withM) ==
            LET sz == IF withM THEN SizeWithM(t, IF HasParts(t) THEN p ELSE 0, q) ELSE SizeNoM(t, IF HasParts(t) THEN p ELSE 0, q)
                w  == (sz + 4) \div 2
            IN  (IF HasParts(t) THEN << Put("shp", c + 32, FALSE, p), Put("shp", c + 36, FALSE, q) >>
                 ELSE << Put("shp", c + 32, FALSE, q) >>)
                \o << Put("shp", 104, TRUE, w), Put("shp", 24, TRUE, 54 + w) >>
    IN  IF IsPointType(t) THEN << >>
        ELSE SetToSeq({ Combo(p, q, m) : p \in (IF HasParts(t) THEN {0, 1, 2} ELSE {0}), q \in {0, 1, 2}, m \in BOOLEAN })

\* a record that really holds a LONG array of part offsets, each part declaring 1 024 points, and
\* nothing after it: every per-part allocation made before the coordinates are read adds up
ManyParts(t, P) ==
    LET nq == P * 1024
        sz == SizeWithM(t, P, nq)
        w  == (sz + 4) \div 2
        RECURSIVE Offs(_)
        Offs(i) == IF i >= P THEN << >> ELSE LE32(i * 1024) \o Offs(i + 1)
        content == EncBoxXY(ZeroBox) \o LE32(P) \o LE32(nq) \o Offs(0)
    IN  EncodeHeader(54 + w, t, ZeroBox) \o BE32(1) \o BE32(w) \o LE32(t) \o content

\* a record with really many vertices (more than any pre-allocation cap a reader may use), whose
\* count is then inflated: the data stops after BigN real points
BigN == 1500
BigShape(t) ==
    LET pts == Pts(t, 1, BigN)
        parts == IF HasParts(t) THEN << pts, Pts(t, 2, 2) >> ELSE << pts >>
    IN  [t |-> t, parts |-> parts, kinds |-> IF t = 31 THEN << 2, 0 >> ELSE << >>,
         box |-> BoxOfPoints(t, Concat(parts))]
BigTemplate(t) ==
    LET s == BigShape(t)
    IN  [t |-> t, n |-> 1, big |-> TRUE, raws |-> << >>,
         combos |-> UnbackedFor(t, s),
         shp |-> EncodeShp(t, ZeroBox, << s >>),
         shx |-> EncodeShx(t, ZeroBox, << s >>),
         fields |-> << Fld("shp", 104, TRUE, "content length"),
                       Fld("shp", IF HasParts(t) THEN 112 + 36 ELSE 112 + 32, FALSE, "point count") >>]

UnbackedIndex == << << Put("shx", 24, TRUE, I32Max) >>, << Put("shx", 24, TRUE, 1073741823) >>,
                    << Put("shx", 24, TRUE, 50 + 4 * 10000000) >>, << Put("shx", 24, TRUE, -1) >> >>

Template(t, n) ==
    LET shapes == [k \in 1..n |-> Shape(t, k)]
        ss == SetToSeq({}) \o [k \in 1..n |-> shapes[k]]
    IN  [t |-> t, n |-> n, big |-> FALSE,
         combos |-> (IF n = 1 THEN Unbacked(t) \o SmallCombos(t) ELSE << >>) \o UnbackedIndex,
         raws |-> IF n = 1 /\ HasParts(t) THEN << ManyParts(t, 3000), ManyParts(t, 1) >> ELSE << >>,
         shp |-> EncodeShp(t, ZeroBox, ss),
         shx |-> EncodeShx(t, ZeroBox, ss),
         fields |-> << Fld("shp", 24, TRUE, "header length"), Fld("shp", 32, FALSE, "header type"),
                       Fld("shp", 0, TRUE, "file code"), Fld("shp", 28, FALSE, "version") >>
                    \o AllRecFields(ss, 100, 1)
                    \o << Fld("shx", 24, TRUE, "index header length"), Fld("shx", 32, FALSE, "index header type") >>
                    \o [i \in 1..(2 * n) |-> Fld("shx", 100 + 4 * (i - 1), TRUE,
                                                 IF i % 2 = 1 THEN "index offset" ELSE "index length")]]

\* boundary values: 0, +-1, +-2, extremes, 2^30 and neighbours, powers of two, values whose
\* double / 8-fold / 16-fold wraps a 32-bit integer
Boundary == { 0, 1, -1, 2, -2, 3, 4, 7, 8, 50, 51, 100, 255, 256, 65535, 65536, 1000000,
              I32Min, I32Min + 1, I32Max, I32Max - 1,
              1073741823, 1073741824, 1073741825, -1073741824, -1073741825,
              536870912, 268435456, 268435455, 134217728, 134217727, 67108864,
              715827883, 1431655765, 2147483600, -2147483600, 16777216, 16777215, -16777216 }

MetaLine == [ev |-> "meta", exactxy |-> TRUE,
             fxy |-> [k \in {ToString(v) : v \in DOMAIN StdXY} |-> StdXY[CHOOSE v \in DOMAIN StdXY : ToString(v) = k]],
             fzm |-> [k \in {ToString(v) : v \in DOMAIN StdZM} |-> StdZM[CHOOSE v \in DOMAIN StdZM : ToString(v) = k]],
             boundary |-> SetToSeq(Boundary)]

Templates == { Template(t, n) : t \in Concrete, n \in {1, 2} }
             \cup { BigTemplate(t) : t \in { c \in Concrete : ~IsPointType(c) } }

ASSUME /\ ndJsonSerialize(IOEnv.OUT, << MetaLine >> \o SetToSeq(Templates))
       /\ PrintT(<< "GENERATED", Cardinality(Templates) >>)
=============================================================================
