------------------------------ MODULE Gen_Shapes ------------------------------
(***************************************************************************)
(* The small scope of MC_Codec as cases for the real code (spec -> impl):  *)
(* every part-length structure of every type, one special value (below /   *)
(* at / just above the no-data threshold, NaN) at every vertex position of  *)
(* every applicable dimension, all six patch kinds.  The codec driver       *)
(* builds each shape through the public constructors, writes and reads it   *)
(* along all routes; Trace_Codec validates.                                 *)
(***************************************************************************)
EXTENDS Integers, Sequences, FiniteSets, EsriBytes, EsriTypes, StdTables, TLC, Json, IOUtils, SequencesExt

INSTANCE EsriCodec WITH FXY <- StdXY, FZM <- StdZM, RXY <- StdRXY, RZM <- StdRZM

Thorough == IOEnv.SCOPE = "thorough"

LenSeqs(t) ==
    CASE IsPointType(t) -> { << 1 >> }
      [] Family(t) = "multipoint" -> { << 1 >>, << 2 >>, << 3 >> }
      [] Family(t) = "polyline" -> { << 2 >>, << 3 >>, << 2, 2 >>, << 2, 3, 2 >> }
      [] OTHER -> { << 1 >>, << 3 >>, << 2, 2 >>, << 1, 3 >>, << 4, 2, 3 >> }

RECURSIVE MkPart(_, _, _, _, _, _)
MkPart(t, first, n, dim, pos, sp) ==
    IF n = 0 THEN << >>
    ELSE LET i == first
             base == << ((i * 7) % 5) - 2, ((i * 3) % 5) - 2,
                        IF StoresZ(t) THEN i % 3 ELSE 0, IF StoresM(t) THEN (i % 4) + 1 ELSE 0 >>
             p == IF i = pos /\ dim > 0 THEN [base EXCEPT ![dim] = sp] ELSE base
         IN  << p >> \o MkPart(t, first + 1, n - 1, dim, pos, sp)
RECURSIVE MkParts(_, _, _, _, _, _)
MkParts(t, lens, first, dim, pos, sp) ==
    IF lens = << >> THEN << >>
    ELSE << MkPart(t, first, Head(lens), dim, pos, sp) >> \o MkParts(t, Tail(lens), first + Head(lens), dim, pos, sp)

\* input to the constructors: the box is computed by them, ring roles / patch kinds are declared
MkInput(t, lens, dim, pos, sp, k) ==
    [t |-> t, parts |-> MkParts(t, lens, 1, dim, pos, sp),
     kinds |-> IF t = 31 THEN [i \in 1..Len(lens) |-> (i + k) % 6]
               ELSE IF Family(t) = "polygon" THEN [i \in 1..Len(lens) |-> (i + k) % 2] ELSE << >>,
     box |-> ZeroBox]

Specials == { -6, -5, -4, 50 }
Dims(t) == (IF StoresZ(t) THEN {3} ELSE {}) \cup (IF StoresM(t) THEN {4} ELSE {})

ShapesOf(t) ==
    { MkInput(t, lens, 0, 0, 0, k) : lens \in LenSeqs(t), k \in (IF t = 31 THEN 0..5 ELSE {0, 1}) }
    \cup { MkInput(t, lens, d, pos, sp, 0) :
             lens \in LenSeqs(t), d \in Dims(t), pos \in (IF Thorough THEN 1..5 ELSE {1, 2, 4}), sp \in Specials }

Cases == UNION { { [t |-> t, shapes |-> << s >>] : s \in ShapesOf(t) }
                 \cup { [t |-> t, shapes |-> << s1, s2, s1 >>] :
                          s1 \in { MkInput(t, lens, 0, 0, 0, 1) : lens \in LenSeqs(t) },
                          s2 \in { MkInput(t, lens, 0, 0, 0, 2) : lens \in LenSeqs(t) } }
                 : t \in Concrete }

ASSUME /\ ndJsonSerialize(IOEnv.OUT, SetToSeq(Cases))
       /\ PrintT(<< "GENERATED", Cardinality(Cases) >>)
=============================================================================
