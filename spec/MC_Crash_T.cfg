SPECIFICATION Spec
CONSTANTS
  MaxLen = 4
  TypeA = 1
  TypeX = 8
  CheckCrash = TRUE
  FXY <- SynXY
  FZM <- SynZM
  RXY <- SynRXY
  RZM <- SynRZM
INVARIANT Inv_Committed
INVARIANT Inv_DropEquivalent
INVARIANT Inv_Index
INVARIANT Inv_HeaderBox
INVARIANT Inv_OneType
INVARIANT Inv_CrashSafe
PROPERTY Act_CleanFinalizeSilent
PROPERTY Act_RejectedWriteSilent
PROPERTY Act_AppendOnly
CHECK_DEADLOCK FALSE
