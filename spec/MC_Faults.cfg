SPECIFICATION Spec
CONSTANTS
  MaxLen = 4
  TypeA = 8
  MaxFaults = 1
  FXY <- SynXY
  FZM <- SynZM
  RXY <- SynRXY
  RZM <- SynRZM
INVARIANT Inv_Committed
INVARIANT Inv_DropEquivalent
INVARIANT Inv_Index
INVARIANT Inv_ReaderSeesWritten
INVARIANT Inv_HeaderBox
INVARIANT Inv_FailedFinalizeRetryable
PROPERTY Act_FaultSurfaced
CHECK_DEADLOCK FALSE
