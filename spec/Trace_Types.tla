----------------------------- MODULE Trace_Types -----------------------------
(***************************************************************************)
(* C19: the runs of equal validity the harness found by pushing all 2^32   *)
(* codes through the real decoder must tile the 32-bit integers and be     *)
(* exactly the 14 singletons of the ESRI table and the gaps between them;  *)
(* predicates, names, re-encoding; the error carries the offending value   *)
(* when the code comes from a header or a record.                          *)
(* C06: typed reads vs generic-then-convert on files of mixed record       *)
(* types; what a generic value, its Rust type and its record say about its *)
(* type; conversion round trips.                                           *)
(***************************************************************************)
EXTENDS Integers, Sequences, FiniteSets, EsriBytes, EsriTypes, TLC, Json, IOUtils

Rec  == ndJsonDeserialize(IOEnv.TRACE)

VARIABLES l, nxt, done, seen, cur
vars == << l, nxt, done, seen, cur >>
Ev(e) == l <= Len(Rec) /\ Rec[l].ev = e /\ l' = l + 1

TReset == /\ Ev("reset")
          /\ nxt' = I32Min /\ done' = FALSE /\ seen' = {} /\ UNCHANGED cur

TType ==
    /\ Ev("type") /\ UNCHANGED << nxt, done, cur >>
    /\ LET e == Rec[l]
       IN  /\ e.code \in Codes /\ e.redecoded = e.code
           /\ e.name = TypeName(e.code)
           /\ e.hasZ = HasZ(e.code) /\ e.hasM = HasM(e.code)
           /\ (e.code # 0 => e.multipart = IsMultipart(e.code))
           /\ seen' = seen \cup {e.code}

TRun ==
    /\ Ev("run") /\ UNCHANGED << seen, cur >>
    /\ LET e == Rec[l]
       IN  /\ ~done /\ e.lo = nxt /\ e.lo <= e.hi
           /\ e.valid <=> (e.lo = e.hi /\ e.lo \in Codes)
           /\ ~e.valid => \A c \in Codes : c < e.lo \/ c > e.hi
           /\ e.reencodes
           /\ done' = (e.hi = I32Max)
           /\ nxt' = IF e.hi = I32Max THEN I32Max ELSE e.hi + 1

TRunsEnd == /\ Ev("runsEnd") /\ done /\ seen = Codes /\ UNCHANGED << nxt, done, seen, cur >>

TRoute ==
    /\ Ev("route") /\ UNCHANGED << nxt, done, seen, cur >>
    /\ LET e == Rec[l]
       IN  IF e.value \in Codes
           THEN IF e.kind \in {"header", "shxheader"} THEN e.res = "ok" /\ e.code = e.value
                \* a record of another layout may fail otherwise, never as an invalid type
                ELSE e.res \notin {"invalid_type", "panic"}
           ELSE e.res = "invalid_type" /\ e.code = e.value

TRouteBulk == /\ Ev("routeBulk") /\ Rec[l].disagreements = 0 /\ UNCHANGED << nxt, done, seen, cur >>

(***************************************************************************)
(* C06                                                                     *)
(***************************************************************************)
TStatic == /\ Ev("statictype") /\ Rec[l].code = Rec[l].S /\ UNCHANGED << nxt, done, seen, cur >>

TTypedFile ==
    /\ Ev("typedfile") /\ UNCHANGED << nxt, done, seen >>
    /\ cur' = Rec[l]
    /\ LET e == Rec[l]
           g == e.generic.items
       IN  /\ e.generic.err = "" /\ e.generic.openErr = ""
           /\ Len(g) = Len(e.types) /\ Len(e.said) = Len(e.types) /\ Len(e.variants) = Len(e.types)
           /\ \A i \in 1..Len(e.types) :
                \* record type code = generic variant = what the value says = type of the decoded shape
                /\ g[i].t = e.types[i] /\ e.said[i] = e.types[i] /\ e.variants[i] = e.types[i]
           \* concrete -> generic -> concrete is the identity
           /\ \A i \in 1..Len(e.ids) : e.ids[i].back = e.ids[i].orig

FirstBad(types, S) == LET bad == { i \in 1..Len(types) : types[i] # S }
                      IN  IF bad = {} THEN 0 ELSE CHOOSE i \in bad : \A j \in bad : i <= j

TTyped ==
    /\ Ev("typed") /\ UNCHANGED << nxt, done, seen, cur >>
    /\ LET e == Rec[l]
           S == e.S
           g == cur.generic.items
           fb == FirstBad(cur.types, S)
       IN  IF fb = 0
           THEN /\ e.typed.ok /\ e.typed.n = Len(cur.types) /\ e.typed.items = g
                /\ e.conv.ok /\ e.conv.items = g
                /\ e.iter.err = "" /\ e.iter.items = g
           ELSE \* fails, naming S as requested and the record's type as actual; never a value of another type
                /\ ~e.typed.ok /\ e.typed.err = "mismatch" /\ e.typed.requested = S /\ e.typed.actual = cur.types[fb]
                /\ ~e.conv.ok /\ e.conv.err = "mismatch" /\ e.conv.requested = S /\ e.conv.actual = cur.types[fb]
                /\ e.iter.err = "mismatch" /\ e.iter.code = cur.types[fb]
                /\ Len(e.iter.items) = fb - 1
                /\ \A i \in 1..(fb - 1) : e.iter.items[i] = g[i]

\* the same agreement on a reader that is not fresh (after seek(k)): whatever record the two
\* reads start at (that is C15's subject), the typed read and generic-then-convert agree
TTypedSeek ==
    /\ Ev("typedseek") /\ UNCHANGED << nxt, done, seen, cur >>
    /\ LET e == Rec[l]
       IN  /\ e.typed.ok = e.conv.ok /\ e.typed.items = e.conv.items
           /\ e.typed.err = e.conv.err
           /\ e.typed.requested = e.conv.requested /\ e.typed.actual = e.conv.actual

\* the complete Reader: read() and read_as::<S, Record>() return the same pairs (shape type, row index) or fail alike,
\* also when the table holds a further row that cannot be parsed
TTypedPairs ==
    /\ Ev("typedpairs") /\ UNCHANGED << nxt, done, seen, cur >>
    /\ LET e == Rec[l]
       IN  /\ e.generic.err = e.typed.err /\ e.generic.pairs = e.typed.pairs
           /\ e.generic.err # "panic"
           /\ ~e.extraRow => (e.generic.err = "" /\ e.generic.pairs = [i \in 1..e.n |-> << e.t, i - 1 >>])

Init == l = 2 /\ nxt = I32Min /\ done = FALSE /\ seen = {} /\ cur = [types |-> << >>]
Next == TReset \/ TType \/ TRun \/ TRunsEnd \/ TRoute \/ TRouteBulk \/ TStatic \/ TTypedFile \/ TTyped \/ TTypedSeek \/ TTypedPairs
Spec == Init /\ [][Next]_vars

Accepted ==
    LET d == TLCGet("stats").diameter
    IN  IF d = Len(Rec) THEN TRUE
        ELSE /\ PrintT(<< "REJECTED", d + 1, Rec[d + 1].ev >>)
             /\ FALSE
=============================================================================
