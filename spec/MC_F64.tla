------------------------------ MODULE MC_F64 ------------------------------
(***************************************************************************)
(* Sanity model of F64Bits: on a set of representative bit patterns the    *)
(* numeric order is a total preorder whose only tie is the pair of zeros,  *)
(* NaN is detected by the bits, and the no-data normalisation is           *)
(* idempotent and monotone.  (Agreement with the hardware on random pairs  *)
(* is checked by Trace_Codec!TF64 on recorded comparisons.)                *)
(***************************************************************************)
EXTENDS F64Bits, FiniteSets, TLC

Finite == { << 0, 0, 0, 0, 0, 0, 0, 0 >>,
           << 0, 0, 0, 0, 0, 0, 0, 128 >>,
           << 0, 0, 0, 0, 0, 0, 240, 63 >>,
           << 0, 0, 0, 0, 0, 0, 240, 191 >>,
           << 1, 0, 0, 0, 0, 0, 0, 0 >>,
           << 1, 0, 0, 0, 0, 0, 0, 128 >>,
           << 255, 255, 255, 255, 255, 255, 239, 127 >>,
           << 255, 255, 255, 255, 255, 255, 239, 255 >>,
           << 0, 0, 0, 0, 0, 0, 240, 127 >>,
           << 0, 0, 0, 0, 0, 0, 240, 255 >>,
           << 29, 74, 156, 244, 135, 130, 7, 200 >>,
           << 28, 74, 156, 244, 135, 130, 7, 200 >>,
           << 30, 74, 156, 244, 135, 130, 7, 200 >>,
           << 51, 51, 51, 51, 51, 51, 211, 63 >>,
           << 52, 51, 51, 51, 51, 51, 211, 63 >>,
           << 0, 0, 0, 0, 0, 0, 16, 0 >>,
           << 119, 190, 159, 26, 47, 221, 94, 192 >> }
NaNs == { << 0, 0, 0, 0, 0, 0, 248, 127 >>, << 1, 0, 0, 0, 0, 0, 240, 255 >> }

ASSUME \A a \in NaNs : IsNaN(a) /\ IsNoDataBits(a) /\ NormMBits(a) = NoDataBits
ASSUME \A a \in Finite : ~IsNaN(a)
\* trichotomy: exactly one of <, =, >
ASSUME \A a, b \in Finite :
          /\ (Less(a, b) \/ NumEq(a, b) \/ Less(b, a))
          /\ ~(Less(a, b) /\ Less(b, a)) /\ ~(Less(a, b) /\ NumEq(a, b))
\* the only numeric tie between different patterns is +0.0 / -0.0
ASSUME \A a, b \in Finite : (NumEq(a, b) /\ a # b) => (IsZero(a) /\ IsZero(b))
\* transitivity
ASSUME \A a, b, c \in Finite : (LessEq(a, b) /\ LessEq(b, c)) => LessEq(a, c)
\* normalisation: idempotent, fixes real data, maps everything at or below the threshold to the constant
ASSUME \A a \in Finite : /\ NormMBits(NormMBits(a)) = NormMBits(a)
                          /\ (Less(NoDataBits, a) => NormMBits(a) = a)
                          /\ (LessEq(a, NoDataBits) => NormMBits(a) = NoDataBits)
ASSUME IsMinOf(<< 0, 0, 0, 0, 0, 0, 0, 128 >>, << << 0, 0, 0, 0, 0, 0, 0, 0 >>, << 0, 0, 0, 0, 0, 0, 240, 63 >> >>)   \* -0.0 is a minimum of {+0.0, 1.0}
ASSUME PrintT(<< "F64 samples", Cardinality(Finite) >>)

VARIABLE x
Init == x = 0
Next == UNCHANGED x
Spec == Init /\ [][Next]_x
=============================================================================
