------------------------------ MODULE MC_Codec ------------------------------
(***************************************************************************)
(* Small-scope theorems about the specification's own statement of the     *)
(* layout, checked exhaustively by TLC before that statement is used as an *)
(* oracle against the code:                                                *)
(*   T1  the strict decoder inverts the reference encoder (C02)            *)
(*   T2  announced size = emitted bytes, words = (size + 4) / 2 (C18)      *)
(*   T3  the reader model applied to the encoder's output satisfies the    *)
(*       read-back relation of C01 (measures normalised in multi-vertex    *)
(*       shapes only)                                                      *)
(*   T4  the with-M and without-M sizes never coincide, and the reader     *)
(*       model reads the no-M layout as ND measures (C03)                  *)
(*   T5  the index file addresses exactly the records (C04)                *)
(* The state is one case (a file of one type); every case is an initial    *)
(* state, Next stutters.                                                   *)
(***************************************************************************)
EXTENDS Integers, Sequences, FiniteSets, EsriBytes, EsriTypes, TLC

Ids == (-8)..8
SynXY == [v \in Ids |-> << v + 100, 1, 2, 3, 4, 5, 6, 7 >>]
SynZM == [v \in Ids \cup {50} |-> << v + 100, 9, 2, 3, 4, 5, 6, 7 >>]

InvOf(F) == [b \in {F[v] : v \in DOMAIN F} |-> CHOOSE v \in DOMAIN F : F[v] = b]
RevXY == InvOf(SynXY)
RevZM == InvOf(SynZM)

INSTANCE EsriCodec WITH FXY <- SynXY, FZM <- SynZM, RXY <- RevXY, RZM <- RevZM

CONSTANT Thorough   \* BOOLEAN: the larger scope

VARIABLE file        \* [t, shapes]

\* part-length structures per family
LenSeqs(t) ==
    CASE IsPointType(t) -> { << 1 >> }
      [] Family(t) = "multipoint" -> { << 1 >>, << 2 >>, << 3 >> }
      [] OTHER -> { << 2 >>, << 3 >>, << 2, 2 >>, << 1, 3 >>, << 2, 0, 2 >>, << 4, 2, 3 >> }

RECURSIVE MkPart(_, _, _, _, _, _)
MkPart(t, first, n, dim, pos, sp) ==
    IF n = 0 THEN << >>
    ELSE LET i == first
             base == << ((i * 7) % 5) - 2, ((i * 3) % 5) - 2,
                        IF StoresZ(t) THEN i % 3 ELSE 0,
                        IF StoresM(t) THEN (i % 4) + 1 ELSE 0 >>
             p == IF i = pos /\ dim > 0 THEN [base EXCEPT ![dim] = sp] ELSE base
         IN  << p >> \o MkPart(t, first + 1, n - 1, dim, pos, sp)

RECURSIVE MkParts(_, _, _, _, _, _)
MkParts(t, lens, first, dim, pos, sp) ==
    IF lens = << >> THEN << >>
    ELSE << MkPart(t, first, Head(lens), dim, pos, sp) >>
         \o MkParts(t, Tail(lens), first + Head(lens), dim, pos, sp)

MkShape(t, lens, dim, pos, sp, k) ==
    LET parts == MkParts(t, lens, 1, dim, pos, sp)
        pts   == Concat(parts)
    IN  [t |-> t, parts |-> parts,
         kinds |-> IF t = 31 THEN [i \in 1..Len(lens) |-> (i + k) % 6]
                   ELSE << >>,
         box |-> IF IsPointType(t) THEN ZeroBox
                 ELSE IF HasNaN(pts) THEN << 0, 0, 0, 0, 0, 0, 50, 50 >>   \* any stored box will do
                 ELSE BoxOfPoints(t, pts)]

Specials == { -6, -5, -4, 50 }
Dims(t) == (IF StoresZ(t) THEN {3} ELSE {}) \cup (IF StoresM(t) THEN {4} ELSE {})

ShapesOf(t) ==
    { MkShape(t, lens, 0, 0, 0, k) : lens \in LenSeqs(t), k \in (IF t = 31 THEN 0..5 ELSE {0}) }
    \cup { MkShape(t, lens, d, pos, sp, 0) :
             lens \in LenSeqs(t), d \in Dims(t), pos \in (IF Thorough THEN 1..4 ELSE {1, 3}), sp \in Specials }

FilesOf(t) ==
    { [t |-> t, shapes |-> << s >>] : s \in ShapesOf(t) }
    \cup (IF Thorough
          THEN { [t |-> t, shapes |-> << s1, s2, s1 >>] :
                   s1 \in ShapesOf(t), s2 \in { MkShape(t, lens, 0, 0, 0, 1) : lens \in LenSeqs(t) } }
          ELSE { [t |-> t, shapes |-> << s1, s2 >>] :
                   s1 \in { MkShape(t, lens, 0, 0, 0, 2) : lens \in LenSeqs(t) },
                   s2 \in { MkShape(t, lens, 0, 0, 0, 1) : lens \in LenSeqs(t) } })

\* one initial state per type (the empty file); its successors are the files of
\* that type, so that TLC's workers share the enumeration
Init == file \in { [t |-> t, shapes |-> << >>] : t \in Concrete }
Next == file.shapes = << >> /\ file' \in FilesOf(file.t)
Spec == Init /\ [][Next]_file

HdrBox == << -1, -2, 3, 4, 0, 1, -4, 2 >>
Shp == EncodeShp(file.t, HdrBox, file.shapes)
Shx == EncodeShx(file.t, HdrBox, file.shapes)

T1_StrictInvertsEncode ==
    LET r == StrictShp(Shp)
    IN  r.ok /\ r.t = file.t /\ r.shapes = file.shapes /\ r.box = HdrBox

T2_Sizes ==
    \A i \in 1..Len(file.shapes) :
        LET s == file.shapes[i]
        IN  /\ Len(EncodeContent(s)) = ContentSize(s)
            /\ RdBE(EncodeRecord(i, s), 4) = (ContentSize(s) + 4) \div 2
            /\ Len(EncodeRecord(i, s)) = 8 + 2 * ContentWords(s)

T3_ReaderReadsBack ==
    LET o == OpenShp(Shp)
        r == SeqIter(Shp, 100, DeclaredBytes(Shp), -1, << >>)
        x == OpenShx(Shx)
        ri == IdxIter(Shp, x.entries, 1, -1, << >>)
    IN  /\ o.ok /\ r.err = "" /\ Len(r.items) = Len(file.shapes)
        /\ \A i \in 1..Len(file.shapes) : ReadBackRel(file.shapes[i], r.items[i].shape, FALSE)
        /\ x.ok /\ ri.err = "" /\ Len(ri.items) = Len(file.shapes)
        /\ \A i \in 1..Len(file.shapes) : ri.items[i].shape = r.items[i].shape

T4_OptionalM ==
    \A i \in 1..Len(file.shapes) :
        LET s == file.shapes[i]
            t == s.t
            noM == EncodeRecordOpt(7, s, FALSE)
            r == ReadAt(noM, 0, -1)
        IN  (StoresM(t) /\ t # 21) =>
              /\ Len(noM) < Len(EncodeRecord(7, s))
              /\ r.ok /\ r.mAbsent
              /\ \A a \in 1..Len(s.parts) : \A j \in 1..Len(s.parts[a]) :
                    /\ r.shape.parts[a][j][4] = ND
                    /\ r.shape.parts[a][j][1] = s.parts[a][j][1]
                    /\ r.shape.parts[a][j][3] = s.parts[a][j][3]

T5_Index ==
    LET r == StrictShp(Shp)
        x == StrictShx(Shx, Shp)
    IN  x.ok /\ x.entries = r.recs

\* C13 on the specification: every truncation of a valid file reads as the records
\* wholly contained, then an I/O error (checked on the files of at most 2 shapes)
RECURSIVE ContainedIn(_, _, _)
ContainedIn(recs, i, n) ==
    IF i > Len(recs) THEN 0
    ELSE IF 2 * recs[i][1] + 8 + 2 * recs[i][2] <= n THEN 1 + ContainedIn(recs, i + 1, n) ELSE 0
T6_Truncation ==
    Len(file.shapes) \in 1..2 =>
      LET recs == StrictShp(Shp).recs
      IN  \A n \in 0..Len(Shp) :
            LET r0 == ReadFile(SubSeq(Shp, 1, n), FALSE, << >>)
                r1 == ReadFile(SubSeq(Shp, 1, n), TRUE, Shx)
            IN  IF n < 100 THEN r0.openErr = "io" /\ r1.openErr = "io"
                ELSE /\ r0.openErr = "" /\ Len(r0.items) = ContainedIn(recs, 1, n)
                     /\ r0.err = (IF n < Len(Shp) THEN "io" ELSE "")
                     /\ Len(r1.items) = Len(r0.items) /\ r1.err = r0.err
                     /\ \A i \in 1..Len(r0.items) : ReadBackRel(file.shapes[i], r0.items[i].shape, FALSE)

=============================================================================
