
