--------------------------- MODULE Trace_Arbitrary ---------------------------
(***************************************************************************)
(* C07 / C17: outcomes of the real reader on damaged and arbitrary inputs. *)
(* The input space comes from the specification (Gen_FieldMap: every       *)
(* 32-bit field of a valid file x boundary values; counts and lengths that *)
(* are consistent but not backed by data); the observation of a panic, an  *)
(* abort, a hang or an allocation is necessarily the harness's.  TLC       *)
(* decides, per input:                                                     *)
(*   C07  every call returned a value or an error (no outcome "panic",     *)
(*        "abort", "timeout"); the iteration ended within the bound        *)
(*        (|shp| + |shx|) / 8 + 2 items; and where the reader model reads  *)
(*        the whole mutated file cleanly (the mutation left it conformant: *)
(*        record numbers, stored boxes, versions, ...), the real reader    *)
(*        returned exactly those shapes                                    *)
(*   C17  the peak memory requested during any single call is at most      *)
(*        64 x (|shp| + |shx|) + 64 KiB                                    *)
(***************************************************************************)
EXTENDS Integers, Sequences, FiniteSets, EsriBytes, EsriTypes, TLC, Json, IOUtils

Rec  == ndJsonDeserialize(IOEnv.TRACE)
Meta == Rec[1]
TabXY == [v \in (-8)..8 |-> Meta.fxy[ToString(v)]]
TabZM == [v \in ((-8)..8) \cup {50} |-> Meta.fzm[ToString(v)]]
InvOf(F) == [b \in {F[v] : v \in DOMAIN F} |-> CHOOSE v \in DOMAIN F : F[v] = b]
RevXY == InvOf(TabXY)
RevZM == InvOf(TabZM)
INSTANCE EsriCodec WITH FXY <- TabXY, FZM <- TabZM, RXY <- RevXY, RZM <- RevZM

On(p) == Meta.prop = "all" \/ Meta.prop = p

VARIABLE l
Ev(e) == l <= Len(Rec) /\ Rec[l].ev = e /\ l' = l + 1

Bound(e) == (Len(e.shp) + Len(e.shx)) \div 8 + 2
MemBound(e) == 64 * (Len(e.shp) + Len(e.shx)) + 65536

TInput ==
    /\ Ev("input")
    /\ LET e == Rec[l]
           r == e.res
           m == ReadFile(e.shp, e.hasShx, e.shx)
       IN  /\ On("C07") =>
                /\ \A i \in 1..Len(r.calls) : r.calls[i].outcome \in {"value", "error", "none"}
                /\ r.openErr # "panic" /\ r.iterErr \notin {"panic", "abort", "timeout"}
                /\ r.openErr = "" => (r.ended /\ r.iterCount <= Bound(e))
                /\ (e.model /\ m.openErr = "" /\ m.err = "") =>
                      /\ r.openErr = "" /\ r.iterErr = ""
                      /\ Len(r.items) = Len(m.items)
                      /\ \A i \in 1..Len(r.items) : SameRead(m.items[i].shape, r.items[i])
           /\ On("C17") => r.peak <= MemBound(e)

Init == l = 2
Next == TInput
Spec == Init /\ [][Next]_l

Accepted ==
    LET d == TLCGet("stats").diameter
    IN  IF d = Len(Rec) THEN TRUE
        ELSE /\ PrintT(<< "REJECTED", d + 1, Rec[d + 1].ev >>)
             /\ FALSE
=============================================================================
