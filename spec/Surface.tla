------------------------------ MODULE Surface ------------------------------
(***************************************************************************)
(* The part of the public surface that none of the listed properties       *)
(* speaks about: what values print as, what errors say, what the box       *)
(* accessors return, the conversions between the library's own types       *)
(* (Vec <-> multipoint, Vec -> ring, polyline -> polygon).  Variable-free: *)
(* used by Trace_Surface on recorded calls of the real library.            *)
(*                                                                         *)
(* A mismatch here is NOT a violation of a listed property: vcheck reports *)
(* it as "SPEC-MISMATCH (beyond the listed properties)" and the exit code  *)
(* of the property checks is not affected (DESIGN 10.7).                   *)
(***************************************************************************)
EXTENDS Integers, Sequences, EsriTypes, TLC

NaNId == 50
NoDataId == -5
IsNoDataId(v) == v # NaNId /\ v <= NoDataId

\* "Shape::Polygon(3 rings)", "Shape::Point(x: 1, y: 2, m: NO_DATA)", "Shape::NullShape"; the decimal texts of the
\* coordinates are Rust's and are passed in (xs, ys, zs, ms)
UnitOf(t) == CASE Family(t) = "multipoint" -> "points"
               [] Family(t) = "polyline"   -> "parts"
               [] Family(t) = "polygon"    -> "rings"
               [] Family(t) = "multipatch" -> "patches"

\* the number a multi-vertex value prints: its points (multipoint) or its parts
CountOf(s) == IF Family(s.t) = "multipoint" THEN Len(s.parts[1]) ELSE Len(s.parts)

DisplayOfConcrete(s, xs, ys, zs, ms) ==
    CASE s.t = 0 -> "NullShape"
      [] Family(s.t) = "point" ->
            "Point(x: " \o xs \o ", y: " \o ys
               \o (IF s.t = 11 THEN ", z: " \o zs ELSE "")
               \o (IF s.t # 1 THEN ", m: " \o (IF IsNoDataId(s.parts[1][1][4]) THEN "NO_DATA" ELSE ms) ELSE "")
               \o ")"
      [] OTHER -> TypeName(s.t) \o "(" \o ToString(CountOf(s)) \o " " \o UnitOf(s.t) \o ")"

DisplayOfShape(s, xs, ys, zs, ms) == "Shape::" \o DisplayOfConcrete(s, xs, ys, zs, ms)

\* what the errors the library itself formats say
ErrorText(kind, code, req, act) ==
    CASE kind = "invalid_file_code" -> "The file code ' " \o ToString(code) \o " ' is invalid, is this a Shapefile ?"
      [] kind = "invalid_type" -> "The code ' " \o ToString(code) \o " ' does not correspond to any of the ShapeType code defined by ESRI"
      [] kind = "mismatch" -> "The requested type: '" \o TypeName(req) \o "' does not correspond to the actual shape type: '"
                                 \o TypeName(act) \o "'"
      [] kind = "missing_dbf"   -> "MissingDbf"
      [] kind = "missing_index" -> "MissingIndexFile"
      [] kind = "invalid_size"  -> "InvalidShapeRecordSize"
      [] kind = "invalid_patch" -> "InvalidPatchType(" \o ToString(code) \o ")"

\* x_range() .. m_range() of a box <<xmin, ymin, xmax, ymax, zmin, zmax, mmin, mmax>>
RangesOf(t, box) ==
    [x |-> << box[1], box[3] >>, y |-> << box[2], box[4] >>,
     z |-> IF StoresZ(t) THEN << box[5], box[6] >> ELSE << >>,
     m |-> IF StoresM(t) THEN << box[7], box[8] >> ELSE << >>]

\* PolygonRing::from(Vec): the role follows the vertex order (clockwise = outer; zero area = outer), points untouched
RECURSIVE SArea2(_, _)
SArea2(ps, i) == IF i >= Len(ps) THEN 0
                 ELSE (ps[i + 1][1] - ps[i][1]) * (ps[i + 1][2] + ps[i][2]) + SArea2(ps, i + 1)
\* (the sum below is negative for a counter-clockwise ring: inner)
RoleByOrder(ps) == IF SArea2(ps, 1) < 0 THEN Inner ELSE Outer
=============================================================================
