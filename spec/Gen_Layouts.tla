----------------------------- MODULE Gen_Layouts -----------------------------
(***************************************************************************)
(* C14: physical layouts of a .shp under an index.  TLC generates, for     *)
(* records of pairwise different sizes, every permutation of their         *)
(* physical order and every choice of filler (length and content) before,  *)
(* between and after them, with a header length covering the whole file    *)
(* and an index listing the records in LOGICAL order.  The real reader     *)
(* must return one shape per index entry, in index order.                  *)
(***************************************************************************)
EXTENDS Integers, Sequences, FiniteSets, EsriBytes, EsriTypes, StdTables, TLC, Json, IOUtils, SequencesExt

INSTANCE EsriCodec WITH FXY <- StdXY, FZM <- StdZM, RXY <- StdRXY, RZM <- StdRZM

Thorough == IOEnv.SCOPE = "thorough"

Pt(t, i) == << ((i * 3) % 7) - 3, ((i * 5) % 7) - 3,
               IF StoresZ(t) THEN (i % 4) - 1 ELSE 0, IF StoresM(t) THEN (i % 3) + 1 ELSE 0 >>
RECURSIVE Pts(_, _, _)
Pts(t, from, n) == IF n = 0 THEN << >> ELSE << Pt(t, from) >> \o Pts(t, from + 1, n - 1)

\* the k-th record of a file of type t: k+1 vertices (point types: distinct coordinates)
Shape(t, k) ==
    LET pts == Pts(t, 3 * k, IF IsPointType(t) THEN 1 ELSE k + 1)
        parts == IF HasParts(t) THEN << pts, Pts(t, 3 * k + 1, 2) >> ELSE << pts >>
    IN  [t |-> t, parts |-> parts,
         kinds |-> IF t = 31 THEN << 0, 1 >> ELSE IF Family(t) = "polygon" THEN << 0, 0 >> ELSE << >>,
         box |-> IF IsPointType(t) THEN ZeroBox ELSE BoxOfPoints(t, Concat(parts))]

\* records of EQUAL size: the same number of vertices, different coordinates
EqShape(t, k) ==
    LET pts == Pts(t, 5 * k, IF IsPointType(t) THEN 1 ELSE 2)
        parts == IF HasParts(t) THEN << pts, Pts(t, 5 * k + 2, 2) >> ELSE << pts >>
    IN  [t |-> t, parts |-> parts,
         kinds |-> IF t = 31 THEN << 0, 1 >> ELSE IF Family(t) = "polygon" THEN << 0, 0 >> ELSE << >>,
         box |-> IF IsPointType(t) THEN ZeroBox ELSE BoxOfPoints(t, Concat(parts))]

Filler(len, pat) ==
    CASE pat = 0 -> Zeros(len)
      [] pat = 1 -> Fill(len, 255)
      [] pat = 2 -> SubSeq(BE32(1) \o BE32(10) \o LE32(1) \o StdXY[1] \o StdXY[2], 1, len)

Perms(n) == { p \in [1..n -> 1..n] : \A i, j \in 1..n : i # j => p[i] # p[j] }

\* lay the records out: fl[1] before the first, fl[i+1] after the i-th physical record
RECURSIVE Layout(_, _, _, _, _, _, _)
Layout(recs, perm, fl, pat, i, acc, offs) ==
    IF i > Len(recs) THEN [bytes |-> acc, offs |-> offs]
    ELSE LET r == recs[perm[i]]
             start == Len(acc)
             a2 == acc \o r \o Filler(fl[i + 1], pat)
         IN  Layout(recs, perm, fl, pat, i + 1, a2, [offs EXCEPT ![perm[i]] = start])

MkCaseOf(t, n, perm, fl, pat, equal) ==
    LET shapes == [k \in 1..n |-> IF equal THEN EqShape(t, k) ELSE Shape(t, k)]
        recs == [k \in 1..n |-> EncodeRecord(k, shapes[k])]
        lay == Layout(recs, perm, fl, pat, 1, Filler(fl[1], pat), [k \in 1..n |-> 0])
        body == lay.bytes
        total == 100 + Len(body)
        RECURSIVE Entries(_)
        Entries(k) == IF k > n THEN << >>
                      ELSE BE32((100 + lay.offs[k]) \div 2) \o BE32(ContentWords(shapes[k])) \o Entries(k + 1)
    IN  [t |-> t, n |-> n, shapes |-> shapes, perm |-> perm, fill |-> fl, pat |-> pat,
         shp |-> EncodeHeader(total \div 2, t, ZeroBox) \o body,
         shx |-> EncodeHeader(50 + 4 * n, t, ZeroBox) \o Entries(1)]

MkCase(t, n, perm, fl, pat) == MkCaseOf(t, n, perm, fl, pat, FALSE)

\* the size in bytes of one of the equal-size records: a filler of exactly that size makes a
\* later record start where a reader that only counts bytes expects the next one
EqRecLen(t) == Len(EncodeRecord(1, EqShape(t, 1)))
\* fillers: all empty, or exactly one of them as long as a record
OneBig(n, t) == { [i \in 1..(n + 1) |-> IF i = j THEN EqRecLen(t) ELSE 0] : j \in 0..(n + 1) }

FillLens == IF Thorough THEN {0, 2, 6, 16} ELSE {0, 6}
Types == IF Thorough THEN Concrete ELSE Concrete
Ns == {1, 2, 3}

Cases == { MkCase(t, 3, p, fl, pat) : t \in Types, p \in Perms(3), fl \in [1..4 -> FillLens], pat \in {0, 1, 2} }
         \cup { MkCase(t, 2, p, fl, 2) : t \in Types, p \in Perms(2), fl \in [1..3 -> {0, 2, 16}] }
         \cup { MkCase(t, 1, p, fl, 1) : t \in Types, p \in Perms(1), fl \in [1..2 -> {0, 6}] }
         \cup (IF Thorough THEN { MkCase(t, 4, p, fl, 2) : t \in {3, 18, 31}, p \in Perms(4), fl \in [1..5 -> {0, 6}] } ELSE {})
         \* one LONG filler (longer than any buffer a reader might skip through) at every position
         \cup UNION { { MkCase(t, 3, p, [i \in 1..4 |-> IF i = j THEN 700 ELSE 0], 1) : p \in Perms(3), j \in 1..4 } : t \in {1, 13, 28, 31} }
         \* a leading filler that puts the first physical record on a "round" word offset (64, 100, 128, 256, 512):
         \* offsets that look like something else (a byte offset of the header's end, a power of two)
         \cup UNION { { MkCase(t, 2, p, [i \in 1..3 |-> IF i = 1 THEN L ELSE 0], 1) : p \in Perms(2), L \in {28, 100, 156, 412, 924} } : t \in {1, 5, 18, 31} }
         \* equal-size records: every permutation of 4 (and of 3), no filler or one filler of a record's size
         \cup UNION { { MkCaseOf(t, 4, p, fl, 0, TRUE) : p \in Perms(4), fl \in OneBig(4, t) } : t \in Types }
         \cup UNION { { MkCaseOf(t, 3, p, fl, 1, TRUE) : p \in Perms(3), fl \in OneBig(3, t) } : t \in Types }

MetaLine == [ev |-> "meta", exactxy |-> TRUE,
             fxy |-> [k \in {ToString(v) : v \in DOMAIN StdXY} |-> StdXY[CHOOSE v \in DOMAIN StdXY : ToString(v) = k]],
             fzm |-> [k \in {ToString(v) : v \in DOMAIN StdZM} |-> StdZM[CHOOSE v \in DOMAIN StdZM : ToString(v) = k]]]

ASSUME /\ ndJsonSerialize(IOEnv.OUT, << MetaLine >> \o SetToSeq(Cases))
       /\ PrintT(<< "GENERATED", Cardinality(Cases) >>)
=============================================================================
