
