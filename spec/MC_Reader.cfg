SPECIFICATION Spec
CONSTANTS
  NRec = 3
  MaxLen = 3
INVARIANT Inv_A
INVARIANT Inv_MechRefines
INVARIANT EmitHist
PROPERTY Act_NthIsNth
PROPERTY Act_CountStable
PROPERTY Act_IterationIsSuffix
CHECK_DEADLOCK FALSE
