---------------------------- MODULE ShapeReader ----------------------------
(***************************************************************************)
(* The reader as a state machine over record INDICES (C15, C04): what a    *)
(* call may return depends on the calls before it only through the set A   *)
(* of record indices at which the property allows a fresh iteration to     *)
(* begin.                                                                  *)
(*                                                                         *)
(*   after open                      A = {0}                               *)
(*   after read_nth(i), i < N        A = {0}                               *)
(*   after read_nth(i), i >= N       A \cup {0}   (not stated: both)       *)
(*   after seek(k)                   A = {min(k, N)}                       *)
(*   after shape_count()             A                                     *)
(*   after an iteration that started at s \in A and yielded j items        *)
(*                                   A = {s + j, 0}  ("the records not yet *)
(*                                   consumed, or all records from the     *)
(*                                   first")                               *)
(*                                                                         *)
(* The choice of s \in A in IterFrom is the only nondeterminism; it is     *)
(* exactly the freedom the statement of C15 leaves.  Without an index      *)
(* read_nth / seek / shape_count fail with MissingIndexFile and change     *)
(* nothing.  The complete Reader pairs record p with row p, so the same    *)
(* machine governs its pairs.                                              *)
(*                                                                         *)
(* Below the abstract machine, Mech* describes one conforming DESIGN at    *)
(* the level of the mechanism the code uses (a pending start index set by  *)
(* seek and consumed by the next iteration; every other iteration restarts *)
(* at record 0); MC_Reader checks that it refines the abstract machine.    *)
(***************************************************************************)
EXTENDS Integers, Sequences, FiniteSets

VARIABLES
    N,          \* number of records
    hasIdx,     \* was the reader opened with an index
    A,          \* where the next fresh iteration may begin
    pend,       \* mechanism: start index requested by seek, -1 = none
    out         \* what the last call returned

rvars == << N, hasIdx, A, pend, out >>

Min(a, b) == IF a < b THEN a ELSE b
Range(s, n) == [i \in 1..n |-> s + i - 1]          \* s, s+1, ..., s+n-1

ROpen(n, idx) ==
    /\ N' = n /\ hasIdx' = idx /\ A' = {0} /\ pend' = -1
    /\ out' = [call |-> "open", items |-> << >>, ended |-> FALSE, res |-> 0]

\* an iterator is created, next() is called up to lim times, the iterator is dropped:
\* it starts at some allowed s, yields s, s+1, ... in order, and reports the end after N-1
IterFrom(s, lim) ==
    LET avail == N - s
        take  == Min(lim, avail)
    IN  /\ s \in A
        /\ out' = [call |-> "iter", items |-> Range(s, take), ended |-> (lim > avail), res |-> s]
        /\ A' = {s + take, 0}
        /\ pend' = -1
        /\ UNCHANGED << N, hasIdx >>

Iter(lim) == \E s \in A : IterFrom(s, lim)

\* the conforming design: a pending seek decides, otherwise restart at 0
MechStart == IF pend >= 0 THEN pend ELSE 0
MechIter(lim) == IterFrom(MechStart, lim)

ReadNth(i) ==
    /\ IF ~hasIdx
       THEN /\ out' = [call |-> "nth", items |-> << >>, ended |-> FALSE, res |-> -2]   \* MissingIndexFile
            /\ UNCHANGED << A, pend >>
       ELSE IF i < N
       THEN /\ out' = [call |-> "nth", items |-> << i >>, ended |-> FALSE, res |-> i]
            /\ A' = {0} /\ pend' = -1
       ELSE /\ out' = [call |-> "nth", items |-> << >>, ended |-> FALSE, res |-> -1]    \* None
            /\ A' = A \cup {0} /\ UNCHANGED pend
    /\ UNCHANGED << N, hasIdx >>

\* a random access that FAILS (here: a typed access naming another type than the record's).  C15
\* demands that later random accesses are unaffected; where a following fresh iteration starts is
\* not stated: the position before the call, the first record and record i are all allowed
ReadNthFails(i) ==
    /\ IF ~hasIdx
       THEN /\ out' = [call |-> "nthfail", items |-> << >>, ended |-> FALSE, res |-> -2]
            /\ UNCHANGED << A, pend >>
       ELSE IF i < N
       THEN /\ out' = [call |-> "nthfail", items |-> << >>, ended |-> FALSE, res |-> -4]    \* type mismatch
            /\ A' = A \cup {0, i} /\ UNCHANGED pend
       ELSE /\ out' = [call |-> "nthfail", items |-> << >>, ended |-> FALSE, res |-> -1]
            /\ A' = A \cup {0} /\ UNCHANGED pend
    /\ UNCHANGED << N, hasIdx >>

Seek(k) ==
    /\ IF ~hasIdx
       THEN /\ out' = [call |-> "seek", items |-> << >>, ended |-> FALSE, res |-> -2]
            /\ UNCHANGED << A, pend >>
       ELSE /\ out' = [call |-> "seek", items |-> << >>, ended |-> FALSE, res |-> 0]
            /\ A' = {Min(k, N)} /\ pend' = Min(k, N)
    /\ UNCHANGED << N, hasIdx >>

Count ==
    /\ out' = [call |-> "count", items |-> << >>, ended |-> FALSE, res |-> IF hasIdx THEN N ELSE -2]
    /\ UNCHANGED << N, hasIdx, A, pend >>

\* C04: the size hint of an iterator that has r shapes still to come (with an index)
SizeHintOK(lo, hi, r) == lo = r /\ hi = r

Inv_A == A # {} /\ A \subseteq 0..N
Inv_MechRefines == MechStart \in A

=============================================================================
