SPECIFICATION Spec
CONSTANT MaxLen = 6
INVARIANT Inv_Counts
INVARIANT Inv_PairsAreAccepted
INVARIANT Inv_Ordered
CHECK_DEADLOCK FALSE
