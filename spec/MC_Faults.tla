------------------------------ MODULE MC_Faults ------------------------------
(***************************************************************************)
(* C12 on the writer specification: histories over {write a, write b,      *)
(* finalize} in which any operation of any call may fail (after 0 or some  *)
(* bytes), followed by further calls on the healed destination.  The       *)
(* commit-point invariants of ShapeWriter must hold at every successful    *)
(* finalize and at drop as long as no WRITE failed -- in particular after  *)
(* "finalize fails at operation k; finalize again": the retry completes    *)
(* both files exactly as an undisturbed run would (Inv_DropEquivalent).    *)
(***************************************************************************)
EXTENDS ShapeWriter, TLC

CONSTANTS MaxLen, TypeA, MaxFaults

Ids == (-8)..8
SynXY == [v \in Ids |-> << v + 100, 1, 2, 3, 4, 5, 6, 7 >>]
SynZM == [v \in Ids \cup {50} |-> << v + 100, 9, 2, 3, 4, 5, 6, 7 >>]
InvOf(F) == [b \in {F[v] : v \in DOMAIN F} |-> CHOOSE v \in DOMAIN F : F[v] = b]
SynRXY == InvOf(SynXY)
SynRZM == InvOf(SynZM)

VARIABLES hist, nfaults
vars == << wvars, hist, nfaults >>

Pt(i, t) == << i, -i, IF StoresZ(t) THEN 1 ELSE 0, IF StoresM(t) THEN 2 ELSE 0 >>
ShapeA == IF IsPointType(TypeA)
          THEN [t |-> TypeA, parts |-> << << Pt(1, TypeA) >> >>, kinds |-> << >>, box |-> ZeroBox]
          ELSE [t |-> TypeA, parts |-> << << Pt(1, TypeA), Pt(2, TypeA) >> >>, kinds |-> << >>,
                box |-> BoxOfPoints(TypeA, << Pt(1, TypeA), Pt(2, TypeA) >>)]
ShapeB == IF IsPointType(TypeA)
          THEN [t |-> TypeA, parts |-> << << Pt(3, TypeA) >> >>, kinds |-> << >>, box |-> ZeroBox]
          ELSE [t |-> TypeA, parts |-> << << Pt(3, TypeA), Pt(2, TypeA), Pt(4, TypeA) >> >>, kinds |-> << >>,
                box |-> BoxOfPoints(TypeA, << Pt(3, TypeA), Pt(2, TypeA), Pt(4, TypeA) >>)]
Sym(c) == IF c = "a" THEN ShapeA ELSE ShapeB

Init == /\ \E w \in BOOLEAN : WInit(w)
        /\ hist = << >> /\ nfaults = 0

Partials == {0, 3}

Next ==
    \/ /\ Len(hist) < MaxLen /\ status \in {"live", "torn", "poisoned"}
       /\ \/ \E c \in {"a", "b"} : (WriteOk(Sym(c)) \/ WriteTorn(Sym(c))) /\ hist' = Append(hist, c) /\ UNCHANGED nfaults
          \/ Finalize /\ hist' = Append(hist, "F") /\ UNCHANGED nfaults
          \/ /\ nfaults < MaxFaults
             /\ nfaults' = nfaults + 1
             /\ \/ \E c \in {"a", "b"}, k \in 1..6, p \in Partials :
                      WriteFails(Sym(c), k, p) /\ hist' = Append(hist, << c, "!", k, p >>)
                \/ \E k \in 1..8, p \in Partials :
                      FinalizeFails(k, p) /\ hist' = Append(hist, << "F", "!", k, p >>)
    \/ /\ status \in {"live", "torn", "poisoned"} /\ Drop /\ hist' = Append(hist, "D") /\ UNCHANGED nfaults
    \/ /\ nfaults < MaxFaults /\ nfaults' = nfaults + 1
       /\ \E k \in 1..8 : DropFails(k, 0) /\ hist' = Append(hist, << "D", "!", k >>)

Spec == Init /\ [][Next]_vars

\* C12: a failed finalize leaves the writer able to complete: dirty is still set
Inv_FailedFinalizeRetryable == (last.call = "finalize" /\ last.res = "io") => dirty
\* the fault surfaces from the failing call itself
Act_FaultSurfaced == [][nfaults' > nfaults => (last'.res = "io" \/ last'.call = "drop")]_vars
=============================================================================
