#!/bin/bash
# usage: confirm_seed.sh <Cxx> [check ids...]  -- confirm a sub-agent's seeded change independently, then run our check(s) on it
set -u
id=$1; shift
base=${id:0:3}
checks=${@:-$base}
src=/tmp/seed
wt=/tmp/confirm/$id
feat=$(python3 -c "import json;print(json.load(open('$src/$id.meta.json')).get('features',''))" 2>/dev/null)
fflag=""; [ -n "$feat" ] && fflag="--features $feat"
rm -rf $wt; mkdir -p /tmp/confirm
git -C /repo worktree add -q --detach $wt HEAD || exit 2
cd $wt
export CARGO_TARGET_DIR=$wt/target
git apply $src/$id.patch.diff || { echo "PATCH DOES NOT APPLY"; git -C /repo worktree remove --force $wt; exit 2; }
t1=$(cargo test --offline $fflag 2>&1 | grep -E "^test result" | grep -vc " 0 failed")
# (the crate's doc tests share file names in the working directory and occasionally race: retry once)
[ "$t1" != "0" ] && t1=$(cargo test --offline $fflag 2>&1 | grep -E "^test result" | grep -vc " 0 failed")
echo "existing tests with change: failing-suites=$t1"
cp $src/$id.demo.rs tests/seed_demo.rs
d1=$(cargo test --offline $fflag --test seed_demo 2>&1 | grep -E "^test result" | tail -1)
echo "demo with change   : $d1"
git checkout -q -- src
d2=$(cargo test --offline $fflag --test seed_demo 2>&1 | grep -E "^test result" | tail -1)
echo "demo without change: $d2"
cd /; git -C /repo worktree remove --force $wt; unset CARGO_TARGET_DIR
mkdir -p /verif/seeded/$id
cp $src/$id.patch.diff /verif/seeded/$id/patch.diff
cp $src/$id.demo.rs /verif/seeded/$id/demo.rs
res=""
for c in $checks; do
  out=$(/verif/lib/try_mutant_iso.sh $c /verif/seeded/$id/patch.diff 2>&1 | head -1)
  echo "check $c on the change: $out"
  res="$res $c:[$out]"
done
python3 - "$id" "$t1" "$d1" "$d2" "$res" <<'PY'
import json,sys
id,t1,d1,d2,res=sys.argv[1:6]
m=json.load(open('/tmp/seed/%s.meta.json'%id))
m['confirmed_by_us']={'existing_test_suites_failing_with_change':int(t1),'demo_with_change':d1,'demo_without_change':d2,
  'our_checks':res.strip(),'how':'lib/confirm_seed.sh: fresh worktree of /repo HEAD, patch applied, cargo test --offline; demo added; src reverted; then lib/try_mutant_iso.sh (scratch worktree + scratch copy of /verif; /repo untouched)'}
json.dump(m,open('/verif/seeded/%s/meta.json'%id,'w'),indent=1)
PY
