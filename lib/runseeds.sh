#!/bin/bash
# quick sweeps under several seeds (soundness on the unchanged tree: no check may alarm under any seed)
cd "$(dirname "$0")/.."
for sd in ${@:-2 3 4}; do
  echo "== seed $sd"
  VERIF_SEED=$sd lib/runall.sh quick
done
