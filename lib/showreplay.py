#!/usr/bin/env python3
"""decode a codec/writer replay file: value tables and header boxes as doubles"""
import json, struct, sys
L = open(sys.argv[1]).read().splitlines()
meta = json.loads(L[0])
def tab(m): return {int(k): struct.unpack('<d', bytes(v))[0] for k, v in m.items()}
fxy, fzm = tab(meta['fxy']), tab(meta['fzm'])
print('xy:', {k: fxy[k] for k in sorted(fxy)})
print('zm:', {k: fzm[k] for k in sorted(fzm)})
for ln in L[1:]:
    e = json.loads(ln)
    d = {k: v for k, v in e.items() if k not in ('shp', 'shx', 'plainShp', 'plainShx', 'fxShp', 'fxShx')}
    print(json.dumps(d)[:700])
    for k in ('shp',):
        if k in e and len(e[k]) >= 100:
            b = bytes(e[k])
            print('   ', k, 'len', len(b), 'declared', struct.unpack('>i', b[24:28])[0], 'type', struct.unpack('<i', b[32:36])[0],
                  'box', struct.unpack('<8d', b[36:100]))
