#!/bin/bash
# run every claimed check (quick unless $1 = thorough) and summarise
tier=${1:-quick}
mkdir -p "$(dirname "$0")/../work"
cd "$(dirname "$0")/.."
for p in $(python3 -c "
import json; print(' '.join(c['property_id'] for c in json.load(open('MANIFEST.json'))['checks']))") BEYOND; do
  s=$(date +%s)
  ./vcheck $p $tier > work/runall-$p.log 2>&1; rc=$?
  e=$(( $(date +%s) - s ))
  echo "$p rc=$rc ${e}s viol=$(grep -c '^VIOLATION' work/runall-$p.log) known=$(grep -c '^KNOWN-FINDING' work/runall-$p.log) beyond=$(grep -c '^SPEC-MISMATCH' work/runall-$p.log)"
done
