#!/usr/bin/env python3
"""Regenerate MANIFEST.json from lib/props.py (single source of truth for what is claimed)."""
import json, os, sys
ROOT = os.path.dirname(os.path.dirname(os.path.abspath(__file__)))
sys.path.insert(0, os.path.join(ROOT, "lib"))
from props import PROPS, NOT_APPLICABLE, HOOK_COMMITS
ids = [json.loads(l)["id"] for l in open(os.path.join(ROOT, "properties.jsonl"))]
checks = []
for pid in ids:
    if pid not in PROPS:
        continue
    P = PROPS[pid]
    checks.append(dict(
        property_id=pid,
        quick_cmd="./vcheck %s quick" % pid,
        thorough_cmd="./vcheck %s thorough" % pid,
        evidence_file="evidence/%s.json" % pid,
        replay_cmd_template="./vcheck %s --replay {path}" % pid,
        engine="tlc",
        level_claimed=dict(category=P["level"], text=P["level_text"], design_ref=P.get("design_ref", "DESIGN.md section 5 " + pid)),
        level_note=P["level_note"],
        technique=P["technique"],
    ))
na = [dict(property_id=k, reason=v) for k, v in NOT_APPLICABLE.items() if k not in PROPS]
for pid in ids:
    if pid not in PROPS and pid not in NOT_APPLICABLE:
        na.append(dict(property_id=pid, reason="check not built yet in this revision (planned: DESIGN.md section 5)"))
m = dict(
    version=1,
    setup_cmd="./vcheck setup",
    hooks=dict(guard="shapefile_verif",
               enable="harness/.cargo/config.toml passes --cfg shapefile_verif to rustc for the harness and the shapefile crate it builds from /repo; "
                      "no source hook exists in /repo (the library is generic over Read/Write/Seek, the harness's devices are the instrumentation)",
               baseline_off_cmd="cd /repo && cargo test --workspace --no-fail-fast --offline",
               source_commits=HOOK_COMMITS, add_only=True),
    engines=[dict(name="tlc", path="spec/", serves_properties=[c["property_id"] for c in checks],
                  kind_free_text="explicit TLA+ specification (spec/*.tla) model-checked by TLC in small scopes; bound to the code by "
                                 "trace validation of ndjson traces recorded by the Rust harness (harness/) and by replay of TLC-enumerated behaviours")],
    checks=checks,
    notes="vcheck rebuilds the harness against /repo's working tree on every run. Exit 0 held, 1 VIOLATION (+replay file), 2 tool error.",
    not_applicable=na,
)
json.dump(m, open(os.path.join(ROOT, "MANIFEST.json"), "w"), indent=1)
print("wrote MANIFEST.json with", len(checks), "checks,", len(na), "not claimed")
