#!/bin/bash
# usage: try_mutant.sh <prop> <patchfile>   -- apply to /repo, run quick check, restore
set -u
prop=$1; patch=$2
cd /repo && git apply "$patch" || { echo "patch does not apply"; exit 2; }
cd /verif && ./vcheck $prop quick > /tmp/mut_out.txt 2>&1; rc=$?
cd /repo && git checkout -- . 
echo "rc=$rc violations=$(grep -c '^VIOLATION' /tmp/mut_out.txt)"; grep -m2 -A1 '^VIOLATION' /tmp/mut_out.txt | cut -c1-300
