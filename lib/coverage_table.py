#!/usr/bin/env python3
"""Regenerate the measured-coverage table of DESIGN.md (section 10.6) from evidence/*.json."""
import json, glob, os, re
ROOT = os.path.dirname(os.path.dirname(os.path.abspath(__file__)))
rows = []
for f in sorted(glob.glob(os.path.join(ROOT, "evidence", "C*.json"))):
    e = json.load(open(f)); c = e["coverage"]
    models = "; ".join("%s %s" % (m["module"], ("%d states" % m["distinct_states"]) if "distinct_states" in m else ("%d cases" % m.get("generated_cases", 0))) for m in c.get("models", []))
    proofs = "; ".join("%s %d obligations" % (p["module"], p["obligations"]) for p in c.get("proofs", []))
    stages = "; ".join("%s->%s: %d events, %d runs" % (s["driver"], s["spec"], s["events"], s["runs_accepted"]) for s in c.get("stages", []))
    rows.append("| %s | %s | %s | %s%s | %s | %.0f |" % (e["property_id"], e["tier"], e["level"], models, ("; " + proofs) if proofs else "", stages, e["wall_s"]))
tbl = "| property | tier | level | TLC models / generators / proofs | trace validation (driver->spec) | wall s |\n|---|---|---|---|---|---|\n" + "\n".join(rows) + "\n"
p = os.path.join(ROOT, "DESIGN.md")
d = open(p).read()
a, b = "<!-- COVERAGE-TABLE-BEGIN -->", "<!-- COVERAGE-TABLE-END -->"
if a in d:
    d = d[:d.index(a) + len(a)] + "\n" + tbl + d[d.index(b):]
    open(p, "w").write(d)
    print("updated")
else:
    print(tbl)
