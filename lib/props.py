"""Per-property configuration of vcheck: which TLA+ models are checked, which harness
driver records traces, which trace specification validates them, and the bounds of
the quick and thorough tiers."""

HOOK_COMMITS = []

# properties deliberately not claimed (reason); anything neither here nor in PROPS is "not built yet"
NOT_APPLICABLE = {}

TECH_TRACE = "TLA+ specification model-checked by TLC + trace validation of recorded executions of the real code"

CODEC_MC = dict(module="MC_Codec", quick="MC_Codec.cfg", thorough="MC_Codec_T.cfg", workers=8)

F64_MC = dict(module="MC_F64", quick="MC_F64.cfg", workers=2)

WRITER_MC = dict(module="MC_Writer", quick="MC_Writer.cfg", thorough="MC_Writer_T.cfg", workers=8)
WRITER_STAGE = dict(cmd="writer", spec="Trace_Writer", histfile=True,
                    quick=dict(chunks=8, maxlen=3, deeplen=4, deeptypes=1, random=6, modeltypes=3),
                    thorough=dict(chunks=16, maxlen=4, deeplen=5, deeptypes=2, random=60, modeltypes=5))

READER_MC = dict(module="MC_Reader", quick="MC_Reader.cfg", thorough="MC_Reader_T.cfg", workers=4)
READER_STAGE = dict(cmd="reader", spec="Trace_Reader", histfile=True,
                    quick=dict(chunks=4, nrec=3, maxlen=2, random=30, types=2),
                    thorough=dict(chunks=12, nrec=3, maxlen=3, random=300, types=13))

PROPS = {
    "C11": dict(
        level="model_checking",
        level_text="TLC checks Inv_CrashSafe on the writer specification: for every bounded history, every byte cut of every .shp "
                   "operation paired with cuts of the .shx operations, the reader model yields an error or a prefix of the shapes "
                   "written and at least the shapes of the last finalize completed inside the cut; on the real code, the operation "
                   "logs of real workloads are cut at every byte, the real reader is opened on the rebuilt files (with/without "
                   "index, sequential and random access) and TLC re-derives the cut files from the logs and validates each outcome",
        level_note="trusted: TLC, the logging destinations (in-memory; a BufWriter<File> reorders nothing but batches differently: "
                   "every byte prefix is covered, so every batching is); shp x shx cut pairs are complete for the first workloads only",
        technique=TECH_TRACE,
        mc=[dict(module="MC_Writer", quick="MC_Crash.cfg", thorough="MC_Crash_T.cfg", workers=12)],
        stages=[dict(cmd="crash", spec="Trace_Crash",
                     quick=dict(chunks=8, workloads=10, fullpairs=0),
                     thorough=dict(chunks=16, workloads=150, fullpairs=3))],
        rule="a case = (workload, .shp cut (ops, bytes), .shx cut (ops, bytes), reader route); cuts enumerate every byte of every "
             "write the real writer issued",
    ),
    "C12": dict(
        level="fault_enumeration",
        level_text="for every workload, every call index k on each destination (write, seek, flush) fails one-shot, after a partial "
                   "write, and persistently (failing seeks and flushes also with ErrorKind::Interrupted); each API call's result and whether the fault fired during it are validated by TLC against "
                   "the fault actions of the writer specification (failing call returns that error; failed finalize retryable: after "
                   "healing, finalize + drop leave the bytes of the undisturbed run; drop never panics); short writes for every chunk "
                   "size 1..9 and random schedules; TLC also explores every failing operation of every bounded history on the "
                   "specification (MC_Faults) with the commit-point invariants",
        level_note="trusted: TLC, the fault-injecting destinations; a write_shape that failed leaves the writer 'poisoned' and a write "
                   "on a writer whose finalize failed and was not retried is outside the property (modelled as WriteTorn)",
        technique="exhaustive fault enumeration on the real writer, each run validated by TLC against the TLA+ writer specification",
        mc=[dict(module="MC_Faults", quick="MC_Faults.cfg", thorough="MC_Faults_T.cfg", workers=8)],
        proofs=["WriterDirty"],
        stages=[dict(cmd="faults", spec="Trace_Writer",
                     quick=dict(chunks=8, types=13, hists=1),
                     thorough=dict(chunks=16, types=13, hists=6))],
        rule="a run = (type, history, destination, failing call index k, mode in {one-shot, partial, persistent}) or a short-write "
             "schedule; k ranges over all calls the undisturbed run issues on that destination plus one",
        exhaustive=True,
    ),
    "C13": dict(
        level="fault_enumeration",
        level_text="every truncation length 0..len of the .shp (index intact / absent; sequential and random access) and of the .shx, "
                   "every k over the reads and seeks a full traversal issues (shp and shx; failing seeks also as ErrorKind::Interrupted), every short-read chunk size 1..9 plus random "
                   "schedules, on real files of all 13 types; TLC evaluates the reader model ReadFile on the same truncated bytes and "
                   "the property's relation on the real outcome; the reader model itself is checked by TLC (T6_Truncation) on every "
                   "truncation of every file of the small codec scope",
        level_note="trusted: TLC, the instrumented sources; files of 2-3 small records per type",
        technique="exhaustive fault enumeration on the real reader, each outcome validated by TLC against the TLA+ reader model",
        mc=[CODEC_MC],
        stages=[dict(cmd="damage", spec="Trace_Damage",
                     quick=dict(chunks=8, types=13, files=1),
                     thorough=dict(chunks=16, types=13, files=6))],
        rule="a case = (file, damage) with damage in {truncation length, failing k-th source call, short-read schedule}; "
             "distinct = every enumerated (file, damage, route)",
        exhaustive=True,
    ),
    "C14": dict(
        level="model_checking",
        level_text="TLC generates every physical layout of the scope with the TLA+ encoder: 1-3 records of pairwise different sizes "
                   "and 3-4 records of EQUAL size, 13 types, every permutation of the physical order, fillers before/between/after "
                   "(lengths 0/2/6/16, exactly one record's size, 700 bytes; three contents incl. bytes that look like a record header), "
                   "header length covering the file, index in logical order; the real reader's iteration, typed iteration, random "
                   "access at every entry and shape_count are validated by TLC against the logical record list and the index-driven "
                   "reader model",
        level_note="trusted: TLC and the TLA+ encoder; generator scope (n <= 3, 4 in thorough; filler lengths {0,2,6,16})",
        technique="behaviour replay: TLC-generated layouts read by the real code, results validated by TLC",
        mc=[CODEC_MC],
        stages=[dict(cmd="foreign", spec="Trace_Foreign", gen="Gen_Layouts", quick=dict(chunks=8), thorough=dict(chunks=16)),
                # an index of more entries than any pre-allocation cap (1 500 records): count, random access around
                # 1 023..1 025 and at the end, full iteration (the reader stage always contains that file)
                dict(cmd="reader", spec="Trace_Reader", quick=dict(chunks=2, nrecs="2", maxlen=1, random=2, types=2),
                     thorough=dict(chunks=4, nrecs="2,4", maxlen=2, random=20, types=13))],
        rule="a case = one generated (.shp, .shx) pair; exhaustive over the generator's scope",
        exhaustive=True,
    ),
    "C15": dict(
        level="model_checking",
        level_text="TLC explores every history up to the bound on the reader specification (the set A of allowed iteration starts) "
                   "and checks that the conforming mechanism refines it; the same histories plus the harness's enumeration (incl. failing "
                   "typed random accesses), long random ones and a 1 500-record file are performed on the real ShapeReader (generic and "
                   "typed entry points) and complete Reader (files of different-size and equal-size records, with and without index, "
                   "in memory and by path) and every recorded return value must be a step of the specification",
        level_note="trusted: TLC, the mapping of returned shapes/rows to record indices (records are pairwise distinct)",
        technique=TECH_TRACE,
        mc=[READER_MC], stages=[READER_STAGE],
        rule="a run = one history of reader calls on a fresh reader; distinct = (type, equal sizes, with index, complete, history)",
    ),
    "C06": dict(
        level="model_checking",
        level_text="TLC generates (TLA+ encoder) every file whose records have any sequence of at most two of the 14 type codes and "
                   "every (a, a, b) (thorough: every triple); the real library reads each as each of the 13 concrete types (read_as, "
                   "typed iteration) and generically (read + convert_shapes_to_vec_of), on fresh readers, after seek(1), and through the "
                   "by-path one-liners with an index that lists the records in reverse; TLC validates each result against the typed-read "
                   "rule of the specification, the four type identities per record and the concrete->generic->concrete round trip",
        level_note="trusted: TLC and the TLA+ encoder; one small shape per type (the property is about types, not geometry)",
        technique="behaviour replay: TLC-generated mixed-type files read by the real code, results validated by TLC",
        mc=[dict(module="MC_Types", quick="MC_Types.cfg", workers=2)],
        stages=[dict(cmd="types", spec="Trace_Types", gen="Gen_Types", quick=dict(chunks=8), thorough=dict(chunks=8))],
        rule="a case = (file of record types ts, requested type S): all 13 S x 407 type sequences; exhaustive over that scope",
        exhaustive=True,
    ),
    "C19": dict(
        level="exploration",
        level_text="all 2^32 codes are pushed through the real ShapeType::from (16 threads); the maximal runs of equal validity it "
                   "finds are validated by TLC against the ESRI table (they must tile int32 and be the 14 singletons and the gaps); "
                   "predicates, names and re-encoding for the 14 types; header and record routes: individually validated for every "
                   "code +-2, powers of two +-1 and i32 extremes, in bulk (seeded sample; thorough: every 32-bit value through "
                   "Header::read_from) for agreement with ShapeType::from and for carrying the value in the error; the table and "
                   "its interval tiling are model-checked by TLC (MC_Types)",
        level_note="exhaustive over the 32-bit domain for ShapeType::from; TLC's integers are 32-bit so the enumeration is the "
                   "harness's and TLC judges the run-length summary",
        technique="exhaustive enumeration by the harness, run-length summary validated by TLC against the TLA+ table; TLC model check of the table",
        mc=[dict(module="MC_Types", quick="MC_Types.cfg", workers=2)],
        stages=[dict(cmd="types", spec="Trace_Types", quick=dict(samples=200000), thorough=dict(samples=2000000, fullroutes=1))],
        rule="evaluations = 2^32 codes through ShapeType::from plus the sampled header/record routes; distinct_nontrivial counts "
             "the same values (each a distinct input)",
        exhaustive=True,
    ),
    "C07": dict(
        level="exploration",
        level_text="input space derived from the specification (TLC evaluates Gen_FieldMap: the field map of template files of all 13 "
                   "types x 39 boundary values for every single 32-bit field of .shp and .shx, consistent-but-unbacked count/length "
                   "combinations) plus truncations/extensions, bit flips and unstructured bytes behind a valid file code; every "
                   "reader entry point (open, full iteration past errors, read_nth, seek, shape_count, iteration after seek) runs "
                   "in child processes with overflow checks and debug assertions on, under catch_unwind, a watchdog and an "
                   "allocation cap; TLC validates every outcome (value or error only, iteration bounded by input size) and, where "
                   "the reader model reads the mutated file cleanly, equality of the shapes",
        level_note="the deciding observations (panic, abort, hang) are the harness's, not the specification's (DESIGN section 6); "
                   "exhaustive over field x boundary value for the templates, sampled for bit flips and random bytes",
        technique="model-derived input enumeration (TLA+ field map) + trace validation of harness-observed outcomes by TLC",
        mc=[CODEC_MC],
        stages=[dict(cmd="arbitrary", spec="Trace_Arbitrary", gen="Gen_FieldMap", quick=dict(chunks=12, workers=12), thorough=dict(chunks=16, workers=14))],
        rule="an input = (template, mutation); distinct inputs counted by the harness",
    ),
    "C17": dict(
        level="exploration",
        level_text="the inputs of C07, in particular the combinations Gen_FieldMap derives with the size algebra used backwards "
                   "(huge point / part / index-entry counts with the record length and header length that keep them mutually "
                   "consistent); a counting global allocator measures the peak bytes requested during every single reader call; TLC "
                   "checks peak <= 64 x input bytes + 64 KiB for every input",
        level_note="the allocation measurements are the harness's (counting allocator around each library call on plain cursors)",
        technique="model-derived input enumeration (TLA+ size algebra) + trace validation of measured allocation peaks by TLC",
        mc=[CODEC_MC],
        stages=[dict(cmd="arbitrary", spec="Trace_Arbitrary", gen="Gen_FieldMap", quick=dict(chunks=12, workers=12), thorough=dict(chunks=16, workers=14))],
        rule="an input = (template, mutation); the 206+ unbacked combinations are the non-trivial core",
    ),
    "C08": dict(
        level="model_checking",
        level_text="TLC checks Inv_Counts on every history of at most 6 calls of the complete-writer specification; every history of "
                   "at most 4 calls over {good pair, shape of another type, row missing a field, row with a wrong-typed value} (13 "
                   "types, in memory and by path, plus long random ones) is performed on the real Writer and validated as a behaviour "
                   "of the specification; at drop TLC counts records / index entries / declared rows in the real bytes and compares "
                   "the pairs returned by Reader::read, iter_shapes_and_records and shapefile::read(path)",
        level_note="trusted: TLC; rows are opaque ids (dbase internals are outside the specification); one open known finding "
                   "(C08-row-rejected-after-shape) is accepted through a named deviation action only when the files show exactly its signature",
        technique=TECH_TRACE,
        mc=[dict(module="MC_Complete", quick="MC_Complete.cfg", workers=4)],
        stages=[dict(cmd="complete", spec="Trace_Complete", quick=dict(chunks=8, maxlen=4, types=13, random=6),
                     thorough=dict(chunks=16, maxlen=6, types=13, random=60))],
        rule="a run = one history of write_shape_and_record calls on a fresh Writer, every call with its own shape and row id",
    ),
    "C20": dict(
        level="model_checking",
        level_text="TLC checks the grouping / flattening round-trip lemmas of GeoConv on every role sequence up to length 6; the "
                   "harness converts random shapes of all 13 types (outer-first polygons, ring-only and strip/fan multipatches, the "
                   "null shape) to geo-types and back, random geo-types geometries of every variant (incl. Rect, Triangle, "
                   "GeometryCollection) to shapes and back, and probes every geo-traits accessor of Point / PointM / PointZ values "
                   "and references for measures that are real, no-data, below the threshold and NaN; TLC validates every recorded "
                   "conversion against GeoConv (coordinates, order, exterior+holes grouping up to ring orientation, refusals, "
                   "dimension count vs readable coordinates)",
        level_note="trusted: TLC, the id<->f64 tables (exact dyadic X/Y); geo-types geometries with non-empty components only",
        technique=TECH_TRACE,
        mc=[dict(module="MC_Geo", quick="MC_Geo.cfg", workers=4)],
        stages=[dict(cmd="geo", spec="Trace_Geo", quick=dict(chunks=6, cases=600), thorough=dict(chunks=16, cases=4000))],
        rule="a case = one conversion (shape -> geo -> shape, or geo -> shape -> geo) or one dimension probe",
    ),
    "C09": dict(
        level="model_checking",
        level_text="TLC explores every history over {write a, write b, write x, finalize} up to the bound on the writer "
                   "specification and checks the committed-file invariants; the same histories (TLC's own list plus the "
                   "harness's enumeration with other endings and long random ones) are performed on the real ShapeWriter for all "
                   "13 types and each recorded execution is validated against the specification, with the properties' relations "
                   "evaluated on the real bytes at every finalize and drop",
        level_note="trusted: TLC, the instrumented destinations; bounded history length; in-memory destinations",
        technique=TECH_TRACE,
        mc=[WRITER_MC], proofs=["WriterDirty"],
        stages=[WRITER_STAGE],
        rule="a run = one history of calls on a fresh real writer (type x index-destination x history x ending in drop / "
             "finalize+drop / write_shapes); distinct = distinct (type, withShx, history) triples",
    ),
    "C10": dict(
        level="model_checking",
        level_text="as C09, with the rejected-write action of the specification: the error names (file type, offered type), the "
                   "call touches no destination, the final bytes equal those of the accepted shapes alone; all 156 ordered type pairs",
        level_note="trusted: TLC, the instrumented destinations; the row side is checked on the complete Writer through Complete.tla (shared with C08)",
        technique=TECH_TRACE,
        mc=[WRITER_MC],
        stages=[dict(cmd="writer", spec="Trace_Writer", histfile=True,
                     quick=dict(chunks=8, maxlen=2, random=4, allx=1, modeltypes=3),
                     thorough=dict(chunks=16, maxlen=3, random=40, allx=1, modeltypes=5)),
                # "through the complete writer the rejected shape's attribute row is not written either"
                dict(cmd="complete", spec="Trace_Complete", quick=dict(chunks=4, maxlen=4, types=13, random=4, alpha="ox"),
                     thorough=dict(chunks=8, maxlen=7, types=13, random=40, alpha="ox"))],
        rule="a run = one history with a shape of another type offered at every position; all ordered pairs (file type, offered type)",
    ),
    "C01": dict(
        level="model_checking",
        level_text="TLC checks in a small scope that the specification's reader model inverts its reference encoder up to the C01 "
                   "relation (MC_Codec) and that the reader sees exactly the accepted shapes at every commit point of every bounded "
                   "writer history (Inv_ReaderSeesWritten); the scope of MC_Codec is replayed on the real code (Gen_Shapes), plus random "
                   "files of 1..4 shapes of all 13 types (up to 1 100 parts / points, empty non-first rings and patches, special "
                   "Z/M values at every vertex position) under several concretisations; every write/read execution along 22 routes "
                   "(generic/typed x sequential/random/collecting x with/without .shx x cursors/files/one-liners) is validated by TLC",
        level_note="trusted: TLC, the harness's id<->f64 tables and its use of public constructors/accessors; claims hold for the explored cases",
        technique=TECH_TRACE,
        mc=[CODEC_MC, F64_MC],
        stages=[dict(cmd="codec", spec="Trace_Codec", gen="Gen_Shapes",
                     quick=dict(chunks=6, cases=8, large=1),
                     thorough=dict(chunks=16, cases=120, large=8, sweep=1))],
        rule="a case = a file of 1..4 random shapes of one type (13 types; small/medium/large part structures; "
             "special Z/M values below/at/above the no-data threshold and NaN placed at every vertex position) "
             "read back along 16+ routes; one concretisation of the value ids per trace file; distinct = cases",
        assumptions=["value ids stand for the doubles of the drawn concretisations only",
                     "ring roles are compared only under exact dyadic X/Y concretisations"],
    ),
    "C02": dict(
        level="model_checking",
        level_text="the strict validator/decoder is a TLA+ operator written from the whitepaper; TLC proves in a small scope that it "
                   "inverts the reference encoder and then executes it on the bytes the real writer produced: after drop, after an "
                   "explicit finalize, by path over files that already existed (longer), for the Gen_Shapes scope, random cases and "
                   "every writer history with finalizes and rejected writes; ShapeReader::header() is compared with the decoded header",
        level_note="trusted: TLC and the TLA+ StrictShp operator (checked against the reference encoder by MC_Codec)",
        technique="TLA+ strict decoder evaluated by TLC on real output bytes (trace validation) + TLC model check of decoder/encoder",
        mc=[CODEC_MC, WRITER_MC],
        proofs=["WriterNumbers"],
        stages=[dict(cmd="codec", spec="Trace_Codec", gen="Gen_Shapes",
                     quick=dict(chunks=6, cases=10, large=1),
                     thorough=dict(chunks=16, cases=60, large=6, sweep=1)),
                # files left behind by histories with finalizes and rejected writes are files too
                dict(cmd="writer", spec="Trace_Writer", histfile=True,
                     quick=dict(chunks=4, maxlen=2, random=4, modeltypes=0, nopath=1),
                     thorough=dict(chunks=8, maxlen=3, random=30, modeltypes=3))],
        rule="a case = the bytes left by the real writer (cursor+drop, cursor+finalize, by path) for 0..4 shapes; "
             "the TLA+ strict validator/decoder StrictShp runs on those bytes",
        assumptions=["the strict decoder is the TLA+ operator StrictShp; it shares no code with the library"],
    ),
    "C03": dict(
        level="model_checking",
        level_text="the independent reference encoder is the TLA+ operator EncodeRecordOpt/EncodeHeader evaluated by TLC: it generates "
                   "every file of the foreign-layout scope (14 type codes, optional M block present/absent per record, 24/32-byte "
                   "PointZ, zero parts, zero- and one-vertex parts, zero points, counter-clockwise first rings, unrelated stored "
                   "boxes, record numbers 0/-1/repeated, null records in typed files, trailing bytes) from abstract models; the "
                   "real reader's generic, typed and read() results are validated by TLC against the model each file encodes and "
                   "against the reader model ReadFile on the same bytes; TLC also checks T4_OptionalM on the codec model",
        level_note="trusted: TLC and the TLA+ encoder; one fixed concretisation of the value ids (StdTables: exact dyadic X/Y, "
                   "-inf/-MAX/NO_DATA neighbours and a NaN in Z/M); scope of the generator, not random large files",
        technique="behaviour replay: TLC-generated files (explicit TLA+ encoder) read by the real code, results validated by TLC",
        mc=[CODEC_MC],
        stages=[dict(cmd="foreign", spec="Trace_Foreign", gen="Gen_Foreign", quick=dict(chunks=8), thorough=dict(chunks=16))],
        rule="a case = one generated .shp; enumerated exhaustively over the generator's scope (quick: reduced record numbers, "
             "special placements and trailing lengths)",
        exhaustive=True,
    ),
    "C04": dict(
        level="model_checking",
        level_text="UNBOUNDED: TLAPS proves (spec/proofs/WriterCounters, 71 obligations) that for any number of records of any size the index "
                   "entries emitted from the running length are exactly the record table and the declared length is the real length; "
                   "BOUNDED: TLC checks Inv_Index on every commit point of the writer model and T5 on the codec model; the real .shx bytes of "
                   "every recorded case and history are parsed by the TLA+ StrictShx and compared with the record table obtained by "
                   "walking the real .shp; on the reader side every recorded count / random access / iteration / size hint of the real "
                   "reader (n = 0, 1, 2, 4 records of varying sizes, in memory and by path) must be a step of the reader specification",
        level_note="trusted: TLC, instrumented destinations; bounded n and sampled size patterns",
        technique=TECH_TRACE,
        mc=[WRITER_MC, CODEC_MC, READER_MC],
        proofs=["WriterCounters"],
        stages=[dict(cmd="codec", spec="Trace_Codec",
                     quick=dict(chunks=4, cases=8, large=1),
                     thorough=dict(chunks=12, cases=50, large=6, sweep=1)),
                dict(cmd="writer", spec="Trace_Writer", histfile=True,
                     quick=dict(chunks=4, maxlen=2, random=4, modeltypes=1),
                     thorough=dict(chunks=12, maxlen=3, random=40, modeltypes=4)),
                dict(cmd="reader", spec="Trace_Reader",
                     quick=dict(chunks=4, nrecs="0,1,2,4", maxlen=2, random=10, types=13),
                     thorough=dict(chunks=8, nrecs="0,1,2,4,7", maxlen=2, random=100, types=13))],
        rule="writer side: a case/history = real .shp/.shx pair; reader side: a run = one history of count / read_nth(0..n) / "
             "iteration with size hints on a reader over a real pair",
    ),
    "C05": dict(
        level="model_checking",
        level_text="TLC checks on the writer model that the incrementally folded header box equals the declarative extremes at "
                   "every commit point of every bounded history; per-shape boxes of constructed values (also of shapes obtained from "
                   "geo-types geometries), the box bytes of their records and the header box of every recorded real file are compared "
                   "by TLC with the extremes computed by rank on the value ids, under concretisations that include +-inf, +-f64::MAX "
                   "and their neighbours, with measure profiles (all real / all no-data / all below the threshold)",
        level_note="trusted: TLC, the id<->f64 tables (order-preserving by construction, asserted at run time); NaN-free shapes only, "
                   "no claim on the header M range of multipatch files and of files containing no-data measures (as the property says)",
        technique=TECH_TRACE,
        mc=[WRITER_MC, CODEC_MC],
        proofs=["WriterBox"],
        stages=[dict(cmd="codec", spec="Trace_Codec",
                     quick=dict(chunks=6, cases=10, large=1, nonan=1),
                     thorough=dict(chunks=16, cases=60, large=6, sweep=1, nonan=1)),
                # shapes obtained from geo-types geometries (From<Line>, From<Polygon>, ...) carry a box too
                dict(cmd="geo", spec="Trace_Geo", quick=dict(chunks=3, cases=300), thorough=dict(chunks=8, cases=3000)),
                dict(cmd="writer", spec="Trace_Writer", histfile=True,
                     quick=dict(chunks=4, maxlen=2, random=6, modeltypes=0, rank=1),
                     thorough=dict(chunks=12, maxlen=3, random=40, modeltypes=4, rank=1)),
                # a write that failed before a byte was emitted is not a written shape: the header box ignores it
                dict(cmd="faults", spec="Trace_Writer", quick=dict(chunks=8, types=13, hists=1),
                     thorough=dict(chunks=16, types=13, hists=3))],
        rule="a case = 0..4 shapes whose vertices are drawn over ranked value ids with the extreme at random positions "
             "(first/middle/last vertex, any part, any shape); each trace file uses its own order-preserving concretisation",
    ),
    "C16": dict(
        level="model_checking",
        level_text="TLC checks on Rings.tla that the conforming constructor closes, orients by exact area and loses no vertex for "
                   "every ring of 1..4 (thorough 5) vertices on the 3x3 grid with both roles, and is idempotent on non-zero-area "
                   "rings; the harness constructs the same rings (x 3 point types, via new / with_rings / polygon!), random ring "
                   "lists with any roles, multipatches of all six kinds (new / with_parts / multipatch!), ends differing in Z or M "
                   "only, rings of 129..600 vertices whose few area-carrying edges fall on the middle, the quarters and random positions, "
                   "and TLC validates every observed (input, output, rebuilt) triple against RingOK / PatchOK",
        level_note="trusted: TLC, the id<->f64 tables; orientation claimed only under exact dyadic X/Y (id * 2^k); one trace file "
                   "uses arbitrary special doubles for closure and vertex preservation only",
        technique="behaviour replay + trace validation: exhaustive grid rings through the real constructors, validated by TLC",
        mc=[dict(module="MC_Rings", quick="MC_Rings.cfg", thorough="MC_Rings_T.cfg", workers=8)],
        stages=[dict(cmd="rings", spec="Trace_Rings", quick=dict(chunks=8, maxv=4, random=300, long=60),
                     thorough=dict(chunks=16, maxv=5, random=5000, long=600))],
        rule="a case = one constructor call; grid rings are enumerated exhaustively (9^n for n = 1..maxv) x 2 roles x 3 point types",
        exhaustive=True,
    ),
    "C18": dict(
        level="model_checking",
        level_text="size algebra (ContentSize) checked against the reference encoder by TLC; announced size, emitted length and "
                   "stored content length of every recorded real shape compared with it by TLC",
        level_note="trusted: TLC; sizes of shapes beyond the sampled structures are not covered",
        technique=TECH_TRACE,
        mc=[CODEC_MC],
        stages=[dict(cmd="codec", spec="Trace_Codec", gen="Gen_Shapes",
                     quick=dict(chunks=4, cases=12, large=2),
                     thorough=dict(chunks=12, cases=80, large=10, sweep=1)),
                # after a write_shape call that failed: the next record still announces its own shape's size
                dict(cmd="faults", spec="Trace_Writer", quick=dict(chunks=8, types=13, hists=1),
                     thorough=dict(chunks=16, types=13, hists=3))],
        rule="a case = shapes of one type; size_in_bytes, length of write_to output and the record's content-length "
             "field are compared with the specification's ContentSize",
    ),
    # not a listed property and not in MANIFEST.json: the specification of the public surface no property covers
    # (./vcheck BEYOND quick|thorough); mismatches print SPEC-MISMATCH lines, coverage goes to beyond/coverage.json
    "BEYOND": dict(
        level="other",
        level_text="Surface.tla on recorded calls: Display of values / types / errors, box range accessors, Vec <-> multipoint, "
                   "Vec -> ring, polyline -> polygon, ring accessors, table-info plumbing of the complete reader and writer",
        level_note="beyond the listed properties",
        technique=TECH_TRACE,
        mc=[],
        stages=[dict(cmd="surface", spec="Trace_Surface", quick=dict(chunks=4, cases=40), thorough=dict(chunks=12, cases=400))],
        rule="a case = one value or one call",
    ),
}

# sentences added to the level texts as the drivers grew (rounds 4 and 5 of the seeded changes, DESIGN 10.5)
LEVEL_TEXT_ADDENDA = {
    "C04": "; by-path pairs whose index is an hour older / younger than the .shp",
    "C06": "; the complete Reader's read() against read_as::<S, Record>(), also with an unparsable extra row; also on files whose header length is stale (0 / 50 words) while the index lists the records",
    "C11": "; workloads on destinations an earlier writer had filled with records of the same sizes (cuts at operation boundaries, read without the index); every crash state is also read by path, with the same outcome; a crash right after a by-path open over an older valid shapefile",
    "C13": "; truncated files are also opened by path; every failing read is repeated under six other io::ErrorKind values; files holding null-shape records",
    "C20": "; polygons whose exterior is repeated among their holes; GeometryCollections of every make-up (empty, polygons only, mixed, nested) must be refused",
    "C12": "; every failing write also as a full destination (Ok(0)); exports of 1 030 and 4 100 records on destinations whose every flush fails (validated at the level of counts); UNBOUNDED: TLAPS proves (spec/proofs/WriterDirty) that a finalize failing anywhere leaves the writer dirty, so the retry rewrites both headers",
    "C01": "; iteration on readers used before (after a refused random access, after a walk past the end); RAW BITS: shapes over arbitrary 64-bit patterns (-0.0, subnormals, NaN payloads, neighbours of NO_DATA) are compared byte by "
           "byte under the rules of spec/F64Bits.tla, whose operators are themselves validated against the processor on recorded "
           "comparisons and model-checked (MC_F64); read-back also through the Iterator adaptors nth/count/last; a size-threshold sweep (serialised sizes on and next to powers of two); files on disk under lower-case, upper-case and dotted names",
    "C02": "; parts of very different lengths in every order; UNBOUNDED: TLAPS proves (spec/proofs/WriterNumbers, 49 obligations) that records are numbered 1, 2, 3, ... whatever refused "
           "or cleanly failed writes lie between them; destinations that accept 1..7 bytes per call; destinations handed over with their cursor away from 0; record numbers and lengths after writes that failed cleanly",
    "C03": "; records of more than 2^20 points and of more than 2^20 parts (fields, counts and sampled vertices validated); every generated file is also read by path and through read_shapes; stored boxes that are all-zero or partly zero",
    "C05": "; per-shape and header boxes of the raw-bit cases by the numeric order of F64Bits; fault runs: a write that failed before emitting a byte must not count for the header box; UNBOUNDED: TLAPS proves "
           "(spec/proofs/WriterBox, 135 obligations) that for any number of shapes the incrementally grown range is exactly the "
           "least low end / greatest high end of the shapes written and is unset exactly when none was",
    "C07": "; runs of 5 000 and 40 000 null records; every input is exercised on a thread with a 512 KiB stack; well-formed files with degenerate geometry (identical / zero / collinear / NaN / infinite vertices) from the harness's own encoder; the same inputs as files on disk through ShapeReader::from_path and read_shapes",
    "C17": "; by-path opens and reads are measured as well; the complete Reader with a table that declares 2 000 000 rows and holds two",
    "C08": "; pairs read as a caller-defined row type that refuses one row (the iteration stays aligned); 1 100 pairs in one file (beyond any pre-allocation cap), in memory and by path; file names with upper-case extension and dotted stems",
    "C09": "; histories may end in the consuming bulk write of an empty container; Z profiles (all Z infinite) under concretisations whose extreme Z/M ids are the infinities; UNBOUNDED: TLAPS proves (spec/proofs/WriterDirty, 29 obligations) the dirty-flag protocol for any history: a clean "
           "writer's headers are current, so the silent finalize / drop is safe, and io = dirty; histories may end with the writer going out of scope during the unwinding of a caller's panic; histories that reach 255/256/257/512 uncommitted records",
    "C10": "; a .shp approaching 2 GiB (into a counting sink): a shape of another type is still refused for its type; refused CONSUMING bulk writes (write_shapes of another type) followed by the drop inside the call; refused writes after 255/256/257/512 uncommitted records",
    "C14": "; every layout also with an index that lists one record twice; every layout also through sources that return a few bytes per read call; records at word offsets around 2^30 and up to 2^31 - 4000 in a sparse 4 GiB source; every layout also as a .shp/.shx pair on disk (from_path iteration and random access, read_shapes, read_shapes_as); an index of 1 500 entries",
    "C16": "; ends that differ only in the sign of a zero (+0.0 / -0.0) are closed; a constructor that does not return is reported as a hang; one trace file concretises X/Y as neighbouring doubles (ends one or two ulps apart are open)",
    "C18": "; sizes of shapes that come out of the reader (open rings and ring patches stay open); in fault runs every write_shape that returned Ok must have emitted exactly one record frame announcing that shape's size",
    "C19": "; routes: .shp header, .shx header, generic record (record numbers 1, 0 and -1), generic two-word record, typed record, typed two-word record",
}
for _k, _v in LEVEL_TEXT_ADDENDA.items():
    PROPS[_k]["level_text"] = PROPS[_k]["level_text"] + _v
