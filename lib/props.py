"""Per-property configuration of vcheck: which TLA+ models are checked, which harness
driver records traces, which trace specification validates them, and the bounds of
the quick and thorough tiers."""

HOOK_COMMITS = []

# properties deliberately not claimed (reason); anything neither here nor in PROPS is "not built yet"
NOT_APPLICABLE = {}

TECH_TRACE = "TLA+ specification model-checked by TLC + trace validation of recorded executions of the real code"

CODEC_MC = dict(module="MC_Codec", quick="MC_Codec.cfg", thorough="MC_Codec_T.cfg", workers=8)

PROPS = {
    "C01": dict(
        level="model_checking",
        level_text="TLC checks in a small scope that the specification's reader model inverts its reference encoder up to the "
                   "C01 relation; every recorded write/read execution of the real code (all 16 routes) is validated against that "
                   "relation by TLC. Bounded by the sampled shapes and concretisations.",
        level_note="trusted: TLC, the harness's id<->f64 tables and its use of public constructors/accessors; claims hold for the explored cases",
        technique=TECH_TRACE,
        mc=[CODEC_MC],
        stages=[dict(cmd="codec", spec="Trace_Codec",
                     quick=dict(chunks=6, cases=8, large=1),
                     thorough=dict(chunks=16, cases=40, large=4, sweep=1))],
        rule="a case = a file of 1..4 random shapes of one type (13 types; small/medium/large part structures; "
             "special Z/M values below/at/above the no-data threshold and NaN placed at every vertex position) "
             "read back along 16+ routes; one concretisation of the value ids per trace file; distinct = cases",
        assumptions=["value ids stand for the doubles of the drawn concretisations only",
                     "ring roles are compared only under exact dyadic X/Y concretisations"],
    ),
    "C02": dict(
        level="model_checking",
        level_text="the strict validator/decoder is a TLA+ operator written from the whitepaper; TLC proves in a small scope that it "
                   "inverts the reference encoder and then executes it on the bytes the real writer produced in every recorded case",
        level_note="trusted: TLC and the TLA+ StrictShp operator (checked against the reference encoder by MC_Codec)",
        technique="TLA+ strict decoder evaluated by TLC on real output bytes (trace validation) + TLC model check of decoder/encoder",
        mc=[CODEC_MC],
        stages=[dict(cmd="codec", spec="Trace_Codec",
                     quick=dict(chunks=6, cases=10, large=1),
                     thorough=dict(chunks=16, cases=60, large=6, sweep=1))],
        rule="a case = the bytes left by the real writer (cursor+drop, cursor+finalize, by path) for 0..4 shapes; "
             "the TLA+ strict validator/decoder StrictShp runs on those bytes",
        assumptions=["the strict decoder is the TLA+ operator StrictShp; it shares no code with the library"],
    ),
    "C18": dict(
        level="model_checking",
        level_text="size algebra (ContentSize) checked against the reference encoder by TLC; announced size, emitted length and "
                   "stored content length of every recorded real shape compared with it by TLC",
        level_note="trusted: TLC; sizes of shapes beyond the sampled structures are not covered",
        technique=TECH_TRACE,
        mc=[CODEC_MC],
        stages=[dict(cmd="codec", spec="Trace_Codec",
                     quick=dict(chunks=4, cases=12, large=2),
                     thorough=dict(chunks=12, cases=80, large=10, sweep=1))],
        rule="a case = shapes of one type; size_in_bytes, length of write_to output and the record's content-length "
             "field are compared with the specification's ContentSize",
    ),
}
