#!/bin/bash
# usage: try_mutant_iso.sh <prop> <patchfile> [tier]
# Like try_mutant.sh but never touches /repo: the patch is applied to a scratch worktree and the
# check runs from a scratch copy of /verif whose harness depends on that worktree.
set -u
prop=$1; patch=$(readlink -f $2); tier=${3:-quick}
M=${MUTDIR:-/tmp/mut}
mkdir -p $M
[ -d $M/repo ] || git -C /repo worktree add -q --detach $M/repo HEAD
cd $M/repo && git checkout -q --detach $(git -C /repo rev-parse HEAD) && git checkout -q -- . && git clean -qfd
git apply "$patch" || { echo "patch does not apply"; exit 2; }
mkdir -p $M/verif
rsync -a --delete --exclude work --exclude harness/target --exclude .git ${VERIF_SRC:-/verif}/ $M/verif/
sed -i "s#path = \"/repo\"#path = \"$M/repo\"#" $M/verif/harness/Cargo.toml
cd $M/verif && VERIF_REPO=$M/repo ./vcheck $prop $tier > $M/out-$prop.txt 2>&1; rc=$?
cd $M/repo && git checkout -q -- . && git clean -qfd
echo "rc=$rc violations=$(grep -c '^VIOLATION' $M/out-$prop.txt)"; grep -m2 -A1 '^VIOLATION' $M/out-$prop.txt | cut -c1-300
