#!/usr/bin/env python3
"""Regenerate the seeded-change table of DESIGN.md 10.5 from seeded/*/meta.json (between the SEED-TABLE markers)."""
import json, glob, os, re
root = os.path.dirname(os.path.dirname(os.path.abspath(__file__)))
rows = []
def key(d):
    b = os.path.basename(d)
    return (b[:3], b[3:])
for d in sorted(glob.glob(root + '/seeded/C*'), key=key):
    mp = d + '/meta.json'
    if not os.path.exists(mp):
        continue
    m = json.load(open(mp))
    cb = m.get('confirmed_by_us', {})
    clean = lambda s: re.sub(r'\s+', ' ', str(s)).replace('|', '/')
    res = cb.get('our_checks', '')
    if cb.get('our_checks_after_strengthening'):
        res = 'first run: %s; after strengthening: %s' % (res, cb['our_checks_after_strengthening'])
    rows.append('| %s | %s | %s | %s |' % (os.path.basename(d), clean(m.get('summary', ''))[:240], clean(m.get('needs', ''))[:160], clean(res)))
table = ['| seed | seeded change (by an independent sub-agent) | needs | our check(s) on it |', '|---|---|---|---|'] + rows
p = root + '/DESIGN.md'
s = open(p).read()
b, e = '<!-- SEED-TABLE-BEGIN -->', '<!-- SEED-TABLE-END -->'
if b not in s:
    # first use: replace the existing table
    lines = s.split('\n')
    i = lines.index('| seed | seeded change (by an independent sub-agent) | needs | our check(s) on it |')
    j = i
    while j < len(lines) and lines[j].startswith('|'):
        j += 1
    lines[i:j] = [b] + table + [e]
    s = '\n'.join(lines)
else:
    s = s[:s.index(b)] + b + '\n' + '\n'.join(table) + '\n' + s[s.index(e):]
open(p, 'w').write(s)
print(len(rows), 'seeds')
