#!/bin/bash
# thorough sweep under another seed (soundness of the thorough tier on the unchanged tree)
cd "$(dirname "$0")/.."
VERIF_SEED=${1:-2} lib/runall.sh thorough
