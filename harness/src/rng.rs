/// splitmix64: small deterministic generator (no external crate, reproducible from VERIF_SEED)
#[derive(Clone)]
pub struct Rng(pub u64);

impl Rng {
    pub fn new(seed: u64) -> Self {
        Rng(seed.wrapping_mul(0x9E3779B97F4A7C15).wrapping_add(0x1234_5678_9abc_def1))
    }
    pub fn next(&mut self) -> u64 {
        self.0 = self.0.wrapping_add(0x9E3779B97F4A7C15);
        let mut z = self.0;
        z = (z ^ (z >> 30)).wrapping_mul(0xBF58476D1CE4E5B9);
        z = (z ^ (z >> 27)).wrapping_mul(0x94D049BB133111EB);
        z ^ (z >> 31)
    }
    /// uniform in 0..n (n > 0)
    pub fn below(&mut self, n: usize) -> usize {
        (self.next() % (n as u64)) as usize
    }
    /// uniform in lo..=hi
    pub fn range(&mut self, lo: i64, hi: i64) -> i64 {
        lo + (self.next() % ((hi - lo + 1) as u64)) as i64
    }
    pub fn chance(&mut self, num: u64, den: u64) -> bool {
        self.next() % den < num
    }
    pub fn pick<'a, T>(&mut self, xs: &'a [T]) -> &'a T {
        &xs[self.below(xs.len())]
    }
    /// k distinct indices out of n, ascending
    pub fn choose_sorted(&mut self, n: usize, k: usize) -> Vec<usize> {
        assert!(k <= n);
        let mut idx: Vec<usize> = (0..n).collect();
        for i in 0..k {
            let j = i + self.below(n - i);
            idx.swap(i, j);
        }
        let mut r = idx[..k].to_vec();
        r.sort();
        r
    }
}
