//! Concretisation of value ids (DESIGN 3.1).
//!
//! The specification works on small integer ids whose order is the order of the
//! doubles they stand for.  A `Conc` is one strictly increasing map id -> f64 per
//! table (XY and ZM); ND (-5) in the ZM table is exactly NO_DATA, NaNV (50) a NaN
//! with a random payload.  `exactxy` makes X/Y ids the dyadic rationals id * 2^k so
//! that the float shoelace sum is exact.
use crate::rng::Rng;
use serde_json::{json, Map, Value};
use std::collections::{BTreeMap, HashMap};

pub const ND: i32 = -5;
pub const NANV: i32 = 50;
/// negative zero in the Z/M table (only where a driver asks for it: it is outside the ranking)
pub const NEGZ: i32 = 51;
pub const GARBAGE: i32 = 99;
pub const IDMIN: i32 = -8;
pub const IDMAX: i32 = 8;

pub struct Conc {
    pub xy: BTreeMap<i32, f64>,
    pub zm: BTreeMap<i32, f64>,
    rev_xy: HashMap<u64, i32>,
    rev_zm: HashMap<u64, i32>,
    pub exactxy: bool,
    pub descr: String,
}

fn neg_pool() -> Vec<f64> {
    // strictly increasing negatives above NO_DATA's neighbourhood
    vec![
        -9.5e38, -1.0e38, -3.0e30, -1.0e10, -65536.0, -1000.5, -3.0, -2.5, -1.0, -0.75,
        -1e-5, -1e-300, -f64::MIN_POSITIVE, -5e-324,
    ]
}
fn pos_pool() -> Vec<f64> {
    vec![
        5e-324, f64::MIN_POSITIVE, 1e-300, 1e-5, 0.5, 1.0, 1.5, 2.0, 1000.25, 65536.0, 1.0e10,
        3.0e30, 1.0e39, 1e300, f64::MAX.next_down(), f64::MAX, f64::INFINITY,
    ]
}

impl Conc {
    pub fn new(rng: &mut Rng, exactxy: bool) -> Conc {
        Self::new_with(rng, exactxy, None, false)
    }

    /// `k`: the exponent of the exact X/Y concretisation (id * 2^k) instead of a random one;
    /// `xy_nan`: id 50 is a NaN in the X/Y table too (for checks where X/Y are only carried, not compared)
    pub fn new_with(rng: &mut Rng, exactxy: bool, kfix: Option<i32>, xy_nan: bool) -> Conc {
        let mut zm = BTreeMap::new();
        // below no-data: -8 < -7 < -6 < ND
        let lows: Vec<f64> = {
            let pool = vec![
                f64::NEG_INFINITY, -f64::MAX, (-f64::MAX).next_up(), -1e300, -2.0e39, -1.5e39,
                shapefile::NO_DATA.next_down(),
            ];
            let idx = rng.choose_sorted(pool.len(), 3);
            idx.iter().map(|i| pool[*i]).collect()
        };
        zm.insert(-8, lows[0]);
        zm.insert(-7, lows[1]);
        zm.insert(-6, lows[2]);
        zm.insert(ND, shapefile::NO_DATA);
        // -4: just above the threshold (or not so just)
        let a4 = *rng.pick(&[shapefile::NO_DATA.next_up(), -9.9e38]);
        zm.insert(-4, a4);
        let np = neg_pool();
        let idx = rng.choose_sorted(np.len(), 3);
        for (k, i) in idx.iter().enumerate() {
            zm.insert(-3 + k as i32, np[*i]);
        }
        zm.insert(0, 0.0);
        let pp = pos_pool();
        let idx = rng.choose_sorted(pp.len(), 8);
        for (k, i) in idx.iter().enumerate() {
            zm.insert(1 + k as i32, pp[*i]);
        }
        // a NaN with random payload and sign
        let payload = (rng.next() & 0x000f_ffff_ffff_ffff) | 1;
        let sign = (rng.next() & 1) << 63;
        zm.insert(NANV, f64::from_bits(sign | 0x7ff0_0000_0000_0000 | payload));

        let mut xy = BTreeMap::new();
        let descr;
        if exactxy {
            let k = kfix.unwrap_or_else(|| rng.range(-40, 40) as i32);
            for v in IDMIN..=IDMAX {
                xy.insert(v, (v as f64) * 2f64.powi(k));
            }
            descr = format!("xy = id*2^{}", k);
        } else {
            let mut npool = vec![
                f64::NEG_INFINITY, -f64::MAX, (-f64::MAX).next_up(), -1e300, -2.0e39,
                shapefile::NO_DATA.next_down(), shapefile::NO_DATA, shapefile::NO_DATA.next_up(),
            ];
            npool.extend(neg_pool());
            let idx = rng.choose_sorted(npool.len(), 8);
            for (k, i) in idx.iter().enumerate() {
                xy.insert(-8 + k as i32, npool[*i]);
            }
            xy.insert(0, 0.0);
            let idx = rng.choose_sorted(pp.len(), 8);
            for (k, i) in idx.iter().enumerate() {
                xy.insert(1 + k as i32, pp[*i]);
            }
            descr = "xy = ranked specials".to_string();
        }
        if xy_nan {
            xy.insert(NANV, f64::from_bits(0x7ff8_0000_0000_0abc));
        }
        let rev_xy = xy.iter().map(|(k, v)| (v.to_bits(), *k)).collect();
        let rev_zm = zm.iter().map(|(k, v)| (v.to_bits(), *k)).collect();
        let c = Conc { xy, zm, rev_xy, rev_zm, exactxy, descr };
        c.check();
        c
    }

    /// id 51 of the Z/M table is -0.0 (equal to the id of 0 as a number, different in its bits)
    pub fn with_negzero(mut self) -> Conc {
        self.zm.insert(NEGZ, -0.0);
        self.rev_zm = self.zm.iter().map(|(k, v)| (v.to_bits(), *k)).collect();
        self.check();
        self
    }

    /// the extreme Z/M ids are the infinities (values the header's running range starts from internally)
    pub fn force_inf(mut self) -> Conc {
        self.zm.insert(IDMIN, f64::NEG_INFINITY);
        self.zm.insert(IDMAX, f64::INFINITY);
        self.rev_zm = self.zm.iter().map(|(k, v)| (v.to_bits(), *k)).collect();
        self.descr = format!("{}; zm extremes = -inf/+inf", self.descr);
        self.check();
        self
    }

    /// X/Y ids are neighbouring doubles (id i = the i-th double after `base`): what rounding noise looks like
    /// (0.1 + 0.2 versus 0.3).  Not exact for products: closure and vertex preservation only.
    pub fn ulps(rng: &mut Rng) -> Conc {
        let mut c = Self::new_with(rng, false, None, false);
        let base: f64 = *rng.pick(&[0.3, 1.0, 1e10, 123456.789, 2.5e-7, 0.1 + 0.2]);
        c.xy.clear();
        for v in IDMIN..=IDMAX {
            c.xy.insert(v, f64::from_bits((base.to_bits() as i64 + v as i64) as u64));
        }
        c.rev_xy = c.xy.iter().map(|(k, v)| (v.to_bits(), *k)).collect();
        c.descr = format!("xy = neighbouring doubles around {}", base);
        c.check();
        c
    }

    /// the concretisation a TLC-generated case file declares in its meta line
    pub fn from_meta(meta: &Value) -> Conc {
        let tab = |v: &Value| -> BTreeMap<i32, f64> {
            v.as_object()
                .unwrap()
                .iter()
                .map(|(k, b)| {
                    let bytes: Vec<u8> = b.as_array().unwrap().iter().map(|x| x.as_u64().unwrap() as u8).collect();
                    let mut a = [0u8; 8];
                    a.copy_from_slice(&bytes);
                    (k.parse::<i32>().unwrap(), f64::from_le_bytes(a))
                })
                .collect()
        };
        let xy = tab(&meta["fxy"]);
        let zm = tab(&meta["fzm"]);
        let rev_xy = xy.iter().map(|(k, v)| (v.to_bits(), *k)).collect();
        let rev_zm = zm.iter().map(|(k, v)| (v.to_bits(), *k)).collect();
        let c = Conc { xy, zm, rev_xy, rev_zm, exactxy: meta["exactxy"].as_bool().unwrap_or(false), descr: "from case file".to_string() };
        c.check();
        c
    }

    fn check(&self) {
        let mut prev: Option<f64> = None;
        for (k, v) in self.xy.iter() {
            if *k == NANV {
                continue;
            }
            if let Some(p) = prev {
                assert!(p < *v, "xy table not strictly increasing");
            }
            prev = Some(*v);
        }
        prev = None;
        for (k, v) in self.zm.iter() {
            if *k == NANV || *k == NEGZ {
                continue;
            }
            if let Some(p) = prev {
                assert!(p < *v, "zm table not strictly increasing");
            }
            prev = Some(*v);
        }
        assert_eq!(self.xy.len(), self.rev_xy.len());
        assert_eq!(self.zm.len(), self.rev_zm.len());
    }

    pub fn x(&self, id: i32) -> f64 {
        *self.xy.get(&id).unwrap_or_else(|| panic!("no xy id {}", id))
    }
    pub fn z(&self, id: i32) -> f64 {
        *self.zm.get(&id).unwrap_or_else(|| panic!("no zm id {}", id))
    }
    pub fn ax(&self, v: f64) -> i32 {
        *self.rev_xy.get(&v.to_bits()).unwrap_or(&GARBAGE)
    }
    pub fn az(&self, v: f64) -> i32 {
        *self.rev_zm.get(&v.to_bits()).unwrap_or(&GARBAGE)
    }

    /// the tables as they go into the meta line of a trace
    pub fn meta(&self) -> Value {
        let tab = |m: &BTreeMap<i32, f64>| {
            let mut o = Map::new();
            for (k, v) in m.iter() {
                o.insert(k.to_string(), crate::jbytes(&v.to_le_bytes()));
            }
            Value::Object(o)
        };
        json!({"fxy": tab(&self.xy), "fzm": tab(&self.zm), "exactxy": self.exactxy,
               "descr": self.descr})
    }
}
