//! C20: geo-types conversions (both directions) and the geo-traits view of points.
use crate::gen::*;
use crate::rng::Rng;
use crate::shapes::*;
use crate::trace::*;
use crate::values::*;
use geo_traits::{CoordTrait, PointTrait};
use geo_types as gt;
use serde_json::{json, Value};
use shapefile::*;
use std::convert::TryFrom;
use std::path::PathBuf;

fn gxy(c: &Conc, p: &gt::Coord<f64>) -> Value {
    json!([c.ax(p.x), c.ax(p.y)])
}
fn gline(c: &Conc, l: &gt::LineString<f64>) -> Value {
    json!(l.0.iter().map(|p| gxy(c, p)).collect::<Vec<_>>())
}
fn gpoly(c: &Conc, p: &gt::Polygon<f64>) -> Value {
    json!({"ext": gline(c, p.exterior()), "holes": p.interiors().iter().map(|h| gline(c, h)).collect::<Vec<_>>()})
}
fn gmpoly(c: &Conc, m: &gt::MultiPolygon<f64>) -> Value {
    json!(m.0.iter().map(|p| gpoly(c, p)).collect::<Vec<_>>())
}
fn gmline(c: &Conc, m: &gt::MultiLineString<f64>) -> Value {
    json!(m.0.iter().map(|l| gline(c, l)).collect::<Vec<_>>())
}
fn gmpoint(c: &Conc, m: &gt::MultiPoint<f64>) -> Value {
    json!(m.0.iter().map(|p| gxy(c, &p.0)).collect::<Vec<_>>())
}

fn geom_json(c: &Conc, g: &gt::Geometry<f64>) -> (String, Value) {
    match g {
        gt::Geometry::Point(p) => ("Point".into(), gxy(c, &p.0)),
        gt::Geometry::Line(l) => ("Line".into(), json!([gxy(c, &l.start), gxy(c, &l.end)])),
        gt::Geometry::LineString(l) => ("LineString".into(), gline(c, l)),
        gt::Geometry::Polygon(p) => ("Polygon".into(), gpoly(c, p)),
        gt::Geometry::MultiPoint(m) => ("MultiPoint".into(), gmpoint(c, m)),
        gt::Geometry::MultiLineString(m) => ("MultiLineString".into(), gmline(c, m)),
        gt::Geometry::MultiPolygon(m) => ("MultiPolygon".into(), gmpoly(c, m)),
        gt::Geometry::GeometryCollection(_) => ("GeometryCollection".into(), json!([])),
        gt::Geometry::Rect(_) => ("Rect".into(), json!([])),
        gt::Geometry::Triangle(_) => ("Triangle".into(), json!([])),
    }
}

/// Shape -> Geometry -> back to the same shape family, everything abstracted
fn shape_to_geo(tr: &mut Trace, c: &Conc, a: &AShape) {
    let s = match guarded(|| build(c, a)) {
        Ok(s) => s,
        Err(_) => return,
    };
    let orig = abstract_shape(c, &s);
    let t = orig.t;
    // the generic dispatch
    let via_geometry = guarded(|| gt::Geometry::<f64>::try_from(clone_shape(&s)));
    let (variant, gj, refused) = match &via_geometry {
        Ok(Ok(g)) => {
            let (v, j) = geom_json(c, g);
            (v, j, false)
        }
        Ok(Err(_)) => ("".to_string(), json!([]), true),
        Err(_) => ("panic".to_string(), json!([]), false),
    };
    // the concrete conversion and the way back
    let back: Value = match guarded(|| -> Option<Shape> {
        Some(match clone_shape(&s) {
            Shape::Point(p) => Shape::Point(Point::from(gt::Point::<f64>::from(p))),
            Shape::PointM(p) => Shape::PointM(PointM::from(gt::Point::<f64>::from(p))),
            Shape::PointZ(p) => Shape::PointZ(PointZ::from(gt::Point::<f64>::from(p))),
            Shape::Multipoint(m) => Shape::Multipoint(Multipoint::from(gt::MultiPoint::<f64>::from(m))),
            Shape::MultipointM(m) => Shape::MultipointM(MultipointM::from(gt::MultiPoint::<f64>::from(m))),
            Shape::MultipointZ(m) => Shape::MultipointZ(MultipointZ::from(gt::MultiPoint::<f64>::from(m))),
            Shape::Polyline(l) => Shape::Polyline(Polyline::from(gt::MultiLineString::<f64>::from(l))),
            Shape::PolylineM(l) => Shape::PolylineM(PolylineM::from(gt::MultiLineString::<f64>::from(l))),
            Shape::PolylineZ(l) => Shape::PolylineZ(PolylineZ::from(gt::MultiLineString::<f64>::from(l))),
            Shape::Polygon(g) => {
                let kinds_outer_first = orig.kinds.first() == Some(&0);
                if !kinds_outer_first {
                    return None;
                }
                Shape::Polygon(Polygon::from(gt::MultiPolygon::<f64>::from(g)))
            }
            Shape::PolygonM(g) => {
                if orig.kinds.first() != Some(&0) {
                    return None;
                }
                Shape::PolygonM(PolygonM::from(gt::MultiPolygon::<f64>::from(g)))
            }
            Shape::PolygonZ(g) => {
                if orig.kinds.first() != Some(&0) {
                    return None;
                }
                Shape::PolygonZ(PolygonZ::from(gt::MultiPolygon::<f64>::from(g)))
            }
            _ => return None,
        })
    }) {
        Ok(Some(b)) => abstract_shape(c, &b).to_json(),
        Ok(None) => json!({"t": -1, "parts": [], "kinds": [], "box": [0, 0, 0, 0, 0, 0, 0, 0]}),
        Err(_) => json!({"t": -2, "parts": [], "kinds": [], "box": [0, 0, 0, 0, 0, 0, 0, 0]}),
    };
    // a Coord converts back to a point of each type as well
    let backc: Value = match &s {
        Shape::Point(p) => abstract_shape(c, &Shape::Point(Point::from(gt::Coord::<f64>::from(*p)))).to_json(),
        Shape::PointM(p) => abstract_shape(c, &Shape::PointM(PointM::from(gt::Coord::<f64>::from(*p)))).to_json(),
        Shape::PointZ(p) => abstract_shape(c, &Shape::PointZ(PointZ::from(gt::Coord::<f64>::from(*p)))).to_json(),
        _ => json!({"t": -1, "parts": [], "kinds": [], "box": [0, 0, 0, 0, 0, 0, 0, 0]}),
    };
    // points also convert to a Coord
    let coord: Value = match &s {
        Shape::Point(p) => gxy(c, &gt::Coord::<f64>::from(*p)),
        Shape::PointM(p) => gxy(c, &gt::Coord::<f64>::from(*p)),
        Shape::PointZ(p) => gxy(c, &gt::Coord::<f64>::from(*p)),
        _ => json!([]),
    };
    let _ = t;
    tr.emit(json!({"ev": "shape2geo", "shape": orig.to_json(), "variant": variant, "refused": refused, "g": gj, "back": back, "coord": coord, "backc": backc}));
}

/// a closed ring of lo..lo+span distinct-ish vertices
fn rand_ring_n(r: &mut Rng, lo: usize, span: usize) -> Vec<(i32, i32)> {
    let n = lo + r.below(span);
    rand_ring(r, n)
}
fn rand_ring(r: &mut Rng, n: usize) -> Vec<(i32, i32)> {
    let mut v: Vec<(i32, i32)> = (0..n).map(|_| (r.range(-8, 8) as i32, r.range(-8, 8) as i32)).collect();
    let f = v[0];
    v.push(f);
    v
}
fn ls(c: &Conc, pts: &[(i32, i32)]) -> gt::LineString<f64> {
    gt::LineString::from(pts.iter().map(|(x, y)| (c.x(*x), c.x(*y))).collect::<Vec<_>>())
}

/// geo-traits views of multipoints and polylines: every point reached through the view
fn view_events(tr: &mut Trace, c: &Conc, a: &AShape) {
    use geo_traits::{LineStringTrait, MultiLineStringTrait, MultiPointTrait};
    let s = match guarded(|| build(c, a)) {
        Ok(s) => s,
        Err(_) => return,
    };
    let orig = abstract_shape(c, &s);
    fn probe<C: CoordTrait<T = f64>>(c: &Conc, v: &C) -> Value {
        let d = v.dim();
        let name = match d {
            geo_traits::Dimensions::Xy => "Xy",
            geo_traits::Dimensions::Xyz => "Xyz",
            geo_traits::Dimensions::Xym => "Xym",
            geo_traits::Dimensions::Xyzm => "Xyzm",
            _ => "Unknown",
        };
        let mut vals = vec![];
        for i in 0..d.size() {
            match guarded(|| v.nth_or_panic(i)) {
                Ok(x) => vals.push(if i < 2 { c.ax(x) } else { c.az(x) }),
                Err(_) => vals.push(-999),
            }
        }
        json!({"dim": name, "vals": vals})
    }
    macro_rules! mp {
        ($m:expr) => {{
            let m = $m;
            let pts: Vec<Value> = MultiPointTrait::points(m).map(|p| probe(c, &p.coord().unwrap())).collect();
            json!([pts])
        }};
    }
    macro_rules! ml {
        ($m:expr) => {{
            let m = $m;
            let parts: Vec<Value> = m.line_strings().map(|l| json!(l.coords().map(|p| probe(c, &p)).collect::<Vec<_>>())).collect();
            json!(parts)
        }};
    }
    let r = guarded(|| match &s {
        Shape::Multipoint(m) => Some(mp!(m)),
        Shape::MultipointM(m) => Some(mp!(m)),
        Shape::MultipointZ(m) => Some(mp!(m)),
        Shape::Polyline(m) => Some(ml!(m)),
        Shape::PolylineM(m) => Some(ml!(m)),
        Shape::PolylineZ(m) => Some(ml!(m)),
        _ => None,
    });
    match r {
        Ok(Some(v)) => tr.emit(json!({"ev": "view", "shape": orig.to_json(), "coords": v, "panic": false})),
        Ok(None) => {}
        Err(_) => tr.emit(json!({"ev": "view", "shape": orig.to_json(), "coords": [], "panic": true})),
    }
}

/// Geometry -> Shape -> Geometry
fn geo_to_shape(tr: &mut Trace, c: &Conc, g: gt::Geometry<f64>) {
    let (variant, gj) = geom_json(c, &g);
    let r = guarded(|| Shape::try_from(g.clone()));
    match r {
        Err(_) => tr.emit(json!({"ev": "geo2shape", "variant": variant, "g": gj, "refused": false, "panic": true,
                                 "shape": AShape::null().to_json(), "variant2": "", "g2": []})),
        Ok(Err(_)) => tr.emit(json!({"ev": "geo2shape", "variant": variant, "g": gj, "refused": true, "panic": false,
                                     "shape": AShape::null().to_json(), "variant2": "", "g2": []})),
        Ok(Ok(s)) => {
            let a = abstract_shape(c, &s);
            let (v2, g2) = match guarded(|| gt::Geometry::<f64>::try_from(clone_shape(&s))) {
                Ok(Ok(g2)) => geom_json(c, &g2),
                Ok(Err(_)) => ("refused".into(), json!([])),
                Err(_) => ("panic".into(), json!([])),
            };
            tr.emit(json!({"ev": "geo2shape", "variant": variant, "g": gj, "refused": false, "panic": false,
                           "shape": a.to_json(), "variant2": v2, "g2": g2}));
        }
    }
}

/// geo-traits: dimension and coordinates of a point, through every impl
fn dims_events(tr: &mut Trace, c: &Conc, t: i32, p: &APoint) {
    fn dimname(d: geo_traits::Dimensions) -> String {
        match d {
            geo_traits::Dimensions::Xy => "Xy".into(),
            geo_traits::Dimensions::Xyz => "Xyz".into(),
            geo_traits::Dimensions::Xym => "Xym".into(),
            geo_traits::Dimensions::Xyzm => "Xyzm".into(),
            geo_traits::Dimensions::Unknown(n) => format!("Unknown{}", n),
        }
    }
    macro_rules! probe {
        ($val:expr, $via:expr, $abs:expr) => {{
            let v = $val;
            let d = CoordTrait::dim(&v);
            let size = d.size();
            let mut vals = vec![];
            for i in 0..size {
                match guarded(|| v.nth_or_panic(i)) {
                    Ok(x) => vals.push($abs(i, x, &dimname(d))),
                    Err(_) => vals.push(-999),
                }
            }
            let xy = [c.ax(CoordTrait::x(&v)), c.ax(CoordTrait::y(&v))];
            tr.emit(json!({"ev": "dims", "t": t, "via": $via, "p": p.to_vec(), "dim": dimname(d), "size": size, "vals": vals, "xy": xy,
                           "pdim": dimname(PointTrait::dim(&v))}));
        }};
    }
    // which table an index belongs to depends on the dimension kind
    let abs = |i: usize, x: f64, d: &str| -> i32 {
        if i < 2 { c.ax(x) } else { let _ = d; c.az(x) }
    };
    match t {
        1 => {
            let v = Point::new(c.x(p[0]), c.x(p[1]));
            probe!(v, "value", abs);
            probe!(&v, "ref", abs);
        }
        21 => {
            let v = PointM::new(c.x(p[0]), c.x(p[1]), c.z(p[3]));
            probe!(v, "value", abs);
            probe!(&v, "ref", abs);
        }
        _ => {
            let v = PointZ::new(c.x(p[0]), c.x(p[1]), c.z(p[2]), c.z(p[3]));
            probe!(v, "value", abs);
            probe!(&v, "ref", abs);
        }
    }
}

pub fn run(a: &Args) {
    let prop = a.get("prop", "C20");
    let out = PathBuf::from(a.get("out", "work/geo"));
    std::fs::create_dir_all(&out).unwrap();
    let seed = a.num("seed", 1);
    let chunks = a.num("chunks", 4) as usize;
    let n = a.num("cases", 300) as usize;
    let mut r = Rng::new(seed.wrapping_mul(141421));
    let mut files = vec![];
    let mut lines = 0;
    let mut cases = 0usize;
    for ch in 0..chunks {
        // X/Y are only carried by the conversions: a NaN id exists in the X/Y table as well
        let c = Conc::new_with(&mut r, true, None, true);
        let mut meta = c.meta();
        meta["prop"] = json!(prop);
        meta["seed"] = json!(seed);
        meta["family"] = json!("geo");
        let mut tr = Trace::create(&out.join(format!("trace-{:03}.ndjson", ch)), meta);
        tr.run(json!({"ev": "reset", "kind": "geo"}));
        // 1. shapes of every type -> geo -> back
        for &t in ALL_TYPES.iter() {
            for k in 0..n / 13 + 1 {
                let g = if k % 3 == 0 { GenCfg::medium() } else { GenCfg::small() };
                let mut s = gen_shape_with(&mut r, t, &g, true);
                if family(t) == "polygon" || t == 31 {
                    // rings without any vertex are outside C20 ("non-empty components"): drop them
                    let keep: Vec<usize> = (0..s.parts.len()).filter(|i| !s.parts[*i].is_empty()).collect();
                    s.parts = keep.iter().map(|i| s.parts[*i].clone()).collect();
                    s.kinds = keep.iter().map(|i| s.kinds[*i]).collect();
                }
                if family(t) == "polygon" && k % 4 != 3 {
                    s.kinds[0] = 0; // mostly outer-first
                }
                if t == 31 && k % 2 == 0 {
                    // ring-only multipatches (the convertible ones)
                    for kd in s.kinds.iter_mut() {
                        *kd = 2 + (*kd % 4);
                    }
                }
                if k % 5 == 1 && family(t) != "polygon" && t != 31 {
                    // a vertex whose X and/or Y is NaN (not for rings: geo-types closes a ring whose ends are NaN once more)
                    let pi = r.below(s.parts.len());
                    if !s.parts[pi].is_empty() {
                        let qi = r.below(s.parts[pi].len());
                        match r.below(3) {
                            0 => { s.parts[pi][qi][0] = NANV; s.parts[pi][qi][1] = NANV; }
                            1 => s.parts[pi][qi][0] = NANV,
                            _ => s.parts[pi][qi][1] = NANV,
                        }
                    }
                }
                shape_to_geo(&mut tr, &c, &s);
                cases += 1;
                if k % 3 == 0 {
                    // with NaN / no-data measures too: the view must stay consistent
                    let s2 = gen_shape(&mut r, t, &GenCfg::small());
                    view_events(&mut tr, &c, &s2);
                    cases += 1;
                }
            }
        }
        shape_to_geo(&mut tr, &c, &AShape::null());
        // 2. geo geometries with non-empty components -> shape -> geo
        for _ in 0..n {
            let which = r.below(10);
            let g: gt::Geometry<f64> = match which {
                0 => gt::Geometry::Point(gt::Point::new(c.x(r.range(-8, 8) as i32), c.x(r.range(-8, 8) as i32))),
                1 => gt::Geometry::Line(gt::Line::new((c.x(1), c.x(r.range(-8, 8) as i32)), (c.x(r.range(-8, 8) as i32), c.x(-3)))),
                2 => gt::Geometry::LineString(ls(&c, &rand_ring_n(&mut r, 2, 4)[..])),
                3 => gt::Geometry::MultiPoint(gt::MultiPoint::from((0..1 + r.below(5)).map(|_| gt::Point::new(c.x(r.range(-8, 8) as i32), c.x(r.range(-8, 8) as i32))).collect::<Vec<_>>())),
                4 => gt::Geometry::MultiLineString(gt::MultiLineString::new((0..1 + r.below(4)).map(|_| { let rr = rand_ring_n(&mut r, 2, 3); ls(&c, &rr) }).collect())),
                5 | 6 => {
                    let ext = rand_ring_n(&mut r, 3, 3);
                    let mut holes: Vec<gt::LineString<f64>> = (0..r.below(3)).map(|_| { let rr = rand_ring(&mut r, 3); ls(&c, &rr) }).collect();
                    // every fourth polygon: one of the holes is the exterior itself (degenerate, and still a ring to carry over)
                    if r.below(4) == 0 {
                        let at = r.below(holes.len() + 1);
                        holes.insert(at, ls(&c, &ext));
                    }
                    gt::Geometry::Polygon(gt::Polygon::new(ls(&c, &ext), holes))
                }
                7 | 8 => {
                    let polys: Vec<gt::Polygon<f64>> = (0..1 + r.below(4)).map(|_| {
                        let ext = rand_ring_n(&mut r, 3, 3);
                        let holes: Vec<gt::LineString<f64>> = (0..r.below(3)).map(|_| { let rr = rand_ring(&mut r, 3); ls(&c, &rr) }).collect();
                        gt::Polygon::new(ls(&c, &ext), holes)
                    }).collect();
                    gt::Geometry::MultiPolygon(gt::MultiPolygon::new(polys))
                }
                _ => match r.below(3) {
                    0 => {
                        // collections of every make-up are refused: empty, of one kind only (polygons included), mixed, nested
                        let poly = |r: &mut Rng| { let ext = rand_ring_n(r, 3, 3); gt::Geometry::Polygon(gt::Polygon::new(ls(&c, &ext), vec![])) };
                        let pt = || gt::Geometry::Point(gt::Point::new(c.x(1), c.x(2)));
                        let line = |r: &mut Rng| gt::Geometry::LineString(ls(&c, &rand_ring_n(r, 2, 3)[..]));
                        let members: Vec<gt::Geometry<f64>> = match r.below(8) {
                            0 => vec![],
                            1 => vec![poly(&mut r)],
                            2 => (0..2 + r.below(3)).map(|_| poly(&mut r)).collect(),
                            3 => vec![pt()],
                            4 => vec![pt(), pt(), pt()],
                            5 => vec![line(&mut r), line(&mut r)],
                            6 => vec![poly(&mut r), pt()],
                            _ => vec![gt::Geometry::GeometryCollection(gt::GeometryCollection::new_from(vec![poly(&mut r), poly(&mut r)]))],
                        };
                        gt::Geometry::GeometryCollection(gt::GeometryCollection::new_from(members))
                    }
                    1 => gt::Geometry::Rect(gt::Rect::new((c.x(0), c.x(0)), (c.x(1), c.x(2)))),
                    _ => gt::Geometry::Triangle(gt::Triangle::new(gt::Coord { x: c.x(0), y: c.x(0) }, gt::Coord { x: c.x(1), y: c.x(2) }, gt::Coord { x: c.x(2), y: c.x(0) })),
                },
            };
            geo_to_shape(&mut tr, &c, g);
            cases += 1;
        }
        // 3. geo-traits: every measure class on every point type
        for &t in &[1, 21, 11] {
            for m in [-8, -7, -6, ND, -4, -1, 0, 3, 8, NANV] {
                for z in [0, 2, -8, NANV] {
                    if t != 11 && z != 0 { continue; }
                    let p = [r.range(-8, 8) as i32, r.range(-8, 8) as i32, if t == 11 { z } else { 0 }, if t == 1 { 0 } else { m }];
                    dims_events(&mut tr, &c, t, &p);
                    cases += 1;
                }
            }
        }
        let (p, l, _) = tr.finish();
        lines += l;
        files.push(p.to_string_lossy().to_string());
    }
    println!("{}", json!({"cases": cases, "distinct": cases, "lines": lines, "files": files}));
}
