//! Codec family (C01 round trip, C02 well-formed output, C18 sizes, C05 boxes, C04 writer side).
//!
//! Per case: build shapes through the public constructors, write them with the real
//! ShapeWriter (instrumented cursors and files by path), read them back along every
//! route, and record everything abstracted to value ids plus the raw bytes.
use crate::gen::*;
use crate::io::*;
use crate::rng::Rng;
use crate::shapes::*;
use crate::trace::*;
use crate::values::*;
use crate::{for_type, jbytes, with_inner};
use serde_json::{json, Value};
use shapefile::*;
use std::io::Cursor;
use std::path::{Path, PathBuf};

pub fn write_all_shapes<T: std::io::Write + std::io::Seek>(w: &mut ShapeWriter<T>, shapes: &[Shape]) -> Result<(), Error> {
    for s in shapes {
        with_inner!(s, x => w.write_shape(x)?, ());
    }
    Ok(())
}

/// write with the real writer into instrumented cursors; returns (shp, shx)
pub fn write_cursor(shapes: &[Shape], explicit_finalize: bool) -> Result<(Vec<u8>, Vec<u8>), String> {
    write_cursor_at(shapes, explicit_finalize, 0)
}

/// `pos0`: the (empty) destinations are handed over with their cursor at that position, like a
/// cleared buffer that is being reused: the files still have to start at offset 0
pub fn write_cursor_at(shapes: &[Shape], explicit_finalize: bool, pos0: u64) -> Result<(Vec<u8>, Vec<u8>), String> {
    let shp = LogDest::new();
    let shx = LogDest::new();
    shp.0.borrow_mut().pos = pos0;
    shx.0.borrow_mut().pos = pos0;
    let r = guarded(|| {
        let mut w = ShapeWriter::with_shx(shp.clone(), shx.clone());
        let r = write_all_shapes(&mut w, shapes);
        if r.is_ok() && explicit_finalize {
            w.finalize().map_err(|e| format!("{:?}", e))?;
        }
        drop(w);
        r.map_err(|e| format!("{:?}", e))
    });
    match r {
        Ok(Ok(())) => Ok((shp.bytes(), shx.bytes())),
        Ok(Err(e)) => Err(e),
        Err(p) => Err(format!("panic: {}", p)),
    }
}

/// files that already exist at the path (usually longer than what a case writes): a writer
/// created by path must replace them (C02: no trailing bytes)
/// file names a path constructor has to cope with: lower-case, upper-case extension, dotted stem
pub fn path_variant(dir: &Path, stem: &str, id: usize) -> PathBuf {
    match id % 3 {
        0 => dir.join(format!("{}{}.shp", stem, id)),
        1 => dir.join(format!("{}{}.SHP", stem.to_uppercase(), id)),
        _ => dir.join(format!("{}.v{}.x.shp", stem, id)),
    }
}

pub fn prepopulate(path: &Path) {
    // (a few KB suffice: most files of the cases are shorter, and a writer that does not replace the
    // old file then leaves a stale tail; kept small because the bytes travel through the traces)
    let junk: Vec<u8> = (0..6_000u32).map(|i| (i % 251) as u8).collect();
    let _ = std::fs::write(path, &junk);
    let _ = std::fs::write(path.with_extension("shx"), &junk[..2_000]);
}

pub fn write_path(shapes: &[Shape], path: &Path) -> Result<(), String> {
    prepopulate(path);
    let r = guarded(|| {
        let mut w = ShapeWriter::from_path(path).map_err(|e| format!("{:?}", e))?;
        write_all_shapes(&mut w, shapes).map_err(|e| format!("{:?}", e))
    });
    match r {
        Ok(x) => x,
        Err(p) => Err(format!("panic: {}", p)),
    }
}

fn items_json(c: &Conc, items: &[Shape]) -> Value {
    Value::Array(items.iter().map(|s| abstract_shape(c, s).to_json()).collect())
}

fn res_json(c: &Conc, items: &[Shape], err: Option<Value>, none_past_end: Option<bool>) -> Value {
    let mut v = json!({"items": items_json(c, items), "openErr": "", "err": "", "code": 0});
    if let Some(e) = err {
        v["err"] = e["err"].clone();
        v["code"] = e["code"].clone();
    }
    v["nonePastEnd"] = json!(none_past_end.unwrap_or(true));
    v
}

/// one reading route over a reader; `n` = number of shapes written
pub fn read_reader<T: std::io::Read + std::io::Seek>(
    c: &Conc,
    mut rdr: ShapeReader<T>,
    t: i32,
    generic: bool,
    random: bool,
    n: usize,
) -> Value {
    let r = guarded(|| {
        let mut items: Vec<Shape> = vec![];
        let mut err: Option<Value> = None;
        let mut none_past = None;
        if !random {
            if generic || t == 0 {
                for it in rdr.iter_shapes() {
                    match it {
                        Ok(s) => items.push(s),
                        Err(e) => {
                            err = Some(err_json(&e));
                            break;
                        }
                    }
                }
            } else {
                for_type!(t, S, {
                    for it in rdr.iter_shapes_as::<S>() {
                        match it {
                            Ok(s) => items.push(Shape::from(s)),
                            Err(e) => {
                                err = Some(err_json(&e));
                                break;
                            }
                        }
                    }
                });
            }
        } else {
            for i in 0..=n {
                let got: Option<Result<Shape, Error>> = if generic || t == 0 {
                    rdr.read_nth_shape(i)
                } else {
                    for_type!(t, S, { rdr.read_nth_shape_as::<S>(i).map(|r| r.map(Shape::from)) })
                };
                match got {
                    None => {
                        if i == n {
                            none_past = Some(true);
                        } else {
                            err = Some(json!({"err": "none_too_early", "code": i}));
                        }
                        break;
                    }
                    Some(Ok(s)) => {
                        if i == n {
                            none_past = Some(false);
                        } else {
                            items.push(s)
                        }
                    }
                    Some(Err(e)) => {
                        err = Some(err_json(&e));
                        break;
                    }
                }
            }
        }
        res_json(c, &items, err, none_past)
    });
    match r {
        Ok(v) => v,
        Err(p) => json!({"items": [], "openErr": "", "err": "panic", "code": 0, "msg": p, "nonePastEnd": true}),
    }
}

pub fn open_err(e: &Error) -> Value {
    let j = err_json(e);
    json!({"items": [], "openErr": j["err"], "err": "", "code": j["code"], "nonePastEnd": true})
}

/// the collecting conveniences ShapeReader::read() / read_as::<S>() (they consume the reader)
pub fn read_collect_route(c: &Conc, shp: &[u8], shx: Option<&[u8]>, t: i32, generic: bool) -> Value {
    let r = guarded(|| {
        let rd = match shx {
            Some(x) => ShapeReader::with_shx(Cursor::new(shp.to_vec()), Cursor::new(x.to_vec())),
            None => ShapeReader::new(Cursor::new(shp.to_vec())),
        }?;
        if generic || t == 0 {
            rd.read()
        } else {
            for_type!(t, S, { rd.read_as::<S>().map(|v| v.into_iter().map(Shape::from).collect()) })
        }
    });
    match r {
        Ok(Ok(items)) => res_json(c, &items, None, None),
        Ok(Err(e)) => res_json(c, &[], Some(err_json(&e)), None),
        Err(p) => json!({"items": [], "openErr": "", "err": "panic", "code": 0, "msg": p, "nonePastEnd": true}),
    }
}

/// sequential reading through Iterator adaptors: `it.nth(k)` yields shape k, the following `next()`s the
/// rest; `count()` and `last()` on fresh iterators (reported in the extra fields)
pub fn read_adaptor_route(c: &Conc, shp: &[u8], shx: Option<&[u8]>, t: i32, generic: bool, k: usize) -> Value {
    let open = || match shx {
        Some(x) => ShapeReader::with_shx(Cursor::new(shp.to_vec()), Cursor::new(x.to_vec())),
        None => ShapeReader::new(Cursor::new(shp.to_vec())),
    };
    let r = guarded(|| -> Result<(Vec<Shape>, usize, Option<Shape>), Error> {
        let mut items = vec![];
        let (cnt, last);
        if generic || t == 0 {
            let mut rd = open()?;
            let mut it = rd.iter_shapes();
            if let Some(x) = it.nth(k) { items.push(x?); }
            for x in it { items.push(x?); }
            cnt = open()?.iter_shapes().count();
            last = match open()?.iter_shapes().last() { Some(x) => Some(x?), None => None };
        } else {
            let (a, b, cc) = for_type!(t, S, {
                let mut rd = open()?;
                let mut it = rd.iter_shapes_as::<S>();
                let mut v = vec![];
                if let Some(x) = it.nth(k) { v.push(Shape::from(x?)); }
                for x in it { v.push(Shape::from(x?)); }
                let cnt = open()?.iter_shapes_as::<S>().count();
                let last = match open()?.iter_shapes_as::<S>().last() { Some(x) => Some(Shape::from(x?)), None => None };
                (v, cnt, last)
            });
            items = a; cnt = b; last = cc;
        }
        Ok((items, cnt, last))
    });
    match r {
        Ok(Ok((items, cnt, last))) => {
            let mut v = res_json(c, &items, None, None);
            v["count"] = json!(cnt);
            v["last"] = match last { Some(s) => json!([abstract_shape(c, &s).to_json()]), None => json!([]) };
            v
        }
        Ok(Err(e)) => { let mut v = res_json(c, &[], Some(err_json(&e)), None); v["count"] = json!(-1); v["last"] = json!([]); v }
        Err(p) => json!({"items": [], "openErr": "", "err": "panic", "code": 0, "msg": p, "nonePastEnd": true, "count": -1, "last": []}),
    }
}

/// sequential reading on a reader that has been used before: after a random access refused for its type
/// (`refused`), or after a walk by random access that ran past the end; the iteration still yields every shape
pub fn read_used_route(c: &Conc, shp: &[u8], shx: &[u8], t: i32, refused: bool) -> Value {
    let r = guarded(|| -> Result<Vec<Shape>, Error> {
        let mut rd = ShapeReader::with_shx(Cursor::new(shp.to_vec()), Cursor::new(shx.to_vec()))?;
        if refused {
            // a concrete type that is not the file's
            let wrong = ALL_TYPES[(ALL_TYPES.iter().position(|x| *x == t).unwrap_or(0) + 5) % 13];
            let _ = for_type!(wrong, S, { rd.read_nth_shape_as::<S>(0).map(|x| x.is_ok()) });
        } else {
            let mut i = 0;
            while let Some(x) = rd.read_nth_shape(i) {
                x?;
                i += 1;
            }
        }
        let mut items = vec![];
        for x in rd.iter_shapes() {
            items.push(x?);
        }
        Ok(items)
    });
    match r {
        Ok(Ok(items)) => res_json(c, &items, None, None),
        Ok(Err(e)) => res_json(c, &[], Some(err_json(&e)), None),
        Err(p) => json!({"items": [], "openErr": "", "err": "panic", "code": 0, "msg": p, "nonePastEnd": true}),
    }
}

pub fn read_cursor_route(c: &Conc, shp: &[u8], shx: Option<&[u8]>, t: i32, generic: bool, random: bool, n: usize) -> Value {
    let opened = guarded(|| match shx {
        Some(x) => ShapeReader::with_shx(Cursor::new(shp.to_vec()), Cursor::new(x.to_vec())),
        None => ShapeReader::new(Cursor::new(shp.to_vec())),
    });
    match opened {
        Ok(Ok(r)) => read_reader(c, r, t, generic, random, n),
        Ok(Err(e)) => open_err(&e),
        Err(p) => json!({"items": [], "openErr": "", "err": "panic", "code": 0, "msg": p, "nonePastEnd": true}),
    }
}

pub fn read_path_route(c: &Conc, path: &Path, t: i32, generic: bool, random: bool, n: usize, oneliner: bool) -> Value {
    if oneliner && !random {
        let r = guarded(|| {
            if generic || t == 0 {
                shapefile::read_shapes(path)
            } else {
                for_type!(t, S, { shapefile::read_shapes_as::<_, S>(path).map(|v| v.into_iter().map(Shape::from).collect()) })
            }
        });
        return match r {
            Ok(Ok(items)) => res_json(c, &items, None, None),
            Ok(Err(e)) => res_json(c, &[], Some(err_json(&e)), None),
            Err(p) => json!({"items": [], "openErr": "", "err": "panic", "code": 0, "msg": p, "nonePastEnd": true}),
        };
    }
    match guarded(|| ShapeReader::from_path(path)) {
        Ok(Ok(r)) => read_reader(c, r, t, generic, random, n),
        Ok(Err(e)) => open_err(&e),
        Err(p) => json!({"items": [], "openErr": "", "err": "panic", "code": 0, "msg": p, "nonePastEnd": true}),
    }
}

pub struct TmpDir(pub PathBuf);
impl TmpDir {
    pub fn new(base: &Path, tag: &str) -> TmpDir {
        let p = base.join(format!("tmp-{}-{}", tag, std::process::id()));
        std::fs::create_dir_all(&p).unwrap();
        TmpDir(p)
    }
}
impl Drop for TmpDir {
    fn drop(&mut self) {
        let _ = std::fs::remove_dir_all(&self.0);
    }
}

/// C01 / C05 over raw bit patterns (spec/F64Bits.tla): shapes of any doubles through the real constructors,
/// writer and readers; nothing is abstracted, TLC compares the bytes of every double
fn raw_events(tr: &mut Trace, r: &mut Rng, t: i32, ncases: usize) {
    use crate::raw::*;
    // the operators of F64Bits against the hardware: what Rust says about pairs of doubles
    let pairs: Vec<Value> = (0..12).map(|i| {
        let a = gen_f64(r, true);
        let b = match i % 4 { 0 => a, 1 => -a, 2 => f64::from_bits(a.to_bits() ^ 1), _ => gen_f64(r, true) };
        json!({"a": a.to_le_bytes().to_vec(), "b": b.to_le_bytes().to_vec(), "lt": a < b, "eq": a == b, "le": a <= b,
               "nanA": a.is_nan(), "nodataA": a.is_nan() || a <= shapefile::NO_DATA, "minAB": a.min(b).to_le_bytes().to_vec()})
    }).collect();
    tr.run(json!({"ev": "f64", "pairs": pairs}));
    for _ in 0..ncases {
        let n = 1 + r.below(3);
        let built = guarded(|| (0..n).map(|_| build_raw(&gen_raw(r, t))).collect::<Vec<Shape>>());
        let shapes = match built {
            Ok(s) => s,
            Err(p) => { tr.run(json!({"ev": "raw", "t": t, "buildPanic": p})); continue; }
        };
        let o: Vec<Value> = shapes.iter().map(|s| raw_of(s).to_json()).collect();
        let (shp, shx) = match write_cursor(&shapes, false) {
            Ok(x) => x,
            Err(e) => { tr.run(json!({"ev": "raw", "t": t, "writeFail": e})); continue; }
        };
        let hdr: Vec<Value> = match ShapeReader::new(Cursor::new(shp.clone())) {
            Ok(rd) => { let b = rd.header().bbox; [b.min.x, b.min.y, b.max.x, b.max.y, b.min.z, b.max.z, b.min.m, b.max.m].iter().map(|v| json!(v.to_le_bytes().to_vec())).collect() }
            Err(_) => vec![],
        };
        let items = |v: Result<Result<Vec<Shape>, Error>, String>| match v {
            Ok(Ok(s)) => json!({"err": "", "items": s.iter().map(|x| raw_of(x).to_json()).collect::<Vec<_>>()}),
            Ok(Err(e)) => json!({"err": err_json(&e)["err"], "items": []}),
            Err(_) => json!({"err": "panic", "items": []}),
        };
        let mut reads = vec![];
        let (a, b) = (shp.clone(), shx.clone());
        let mut x = items(guarded(move || ShapeReader::with_shx(Cursor::new(a), Cursor::new(b)).and_then(|rd| rd.read())));
        x["route"] = json!("generic-seq-shx");
        reads.push(x);
        let a = shp.clone();
        let mut x = items(guarded(move || for_type!(t, S, { ShapeReader::new(Cursor::new(a)).and_then(|rd| rd.read_as::<S>()).map(|v| v.into_iter().map(Shape::from).collect()) })));
        x["route"] = json!("typed-seq");
        reads.push(x);
        let (a, b) = (shp.clone(), shx.clone());
        let mut x = items(guarded(move || for_type!(t, S, {
            ShapeReader::with_shx(Cursor::new(a), Cursor::new(b)).and_then(|mut rd| {
                let mut v = vec![];
                for i in 0..n { match rd.read_nth_shape_as::<S>(i) { Some(Ok(s)) => v.push(Shape::from(s)), Some(Err(e)) => return Err(e), None => break } }
                Ok(v)
            })
        })));
        x["route"] = json!("typed-nth-shx");
        reads.push(x);
        tr.run(json!({"ev": "raw", "t": t, "shapes": o, "hdr": hdr, "reads": reads}));
    }
}

/// what ShapeReader::header() says about a file the real writer left
fn header_event(c: &Conc, shp: &[u8]) -> Value {
    match guarded(|| ShapeReader::new(Cursor::new(shp.to_vec())).map(|r| *r.header())) {
        Ok(Ok(h)) => json!({"ev": "header", "ok": true, "words": h.file_length, "t": h.shape_type as i32, "version": h.version,
                            "box": [c.ax(h.bbox.min.x), c.ax(h.bbox.min.y), c.ax(h.bbox.max.x), c.ax(h.bbox.max.y),
                                    c.az(h.bbox.min.z), c.az(h.bbox.max.z), c.az(h.bbox.min.m), c.az(h.bbox.max.m)], "shp": jbytes(shp)}),
        _ => json!({"ev": "header", "ok": false, "words": 0, "t": 0, "version": 0, "box": [0, 0, 0, 0, 0, 0, 0, 0], "shp": jbytes(shp)}),
    }
}

/// the accessors of a constructed value: counts, indexed access (in and out of range), into_inner
fn access_event(c: &Conc, s: &Shape) -> Value {
    let o = abstract_shape(c, s);
    let a = |s2: Shape| abstract_shape(c, &s2).to_json();
    let v = guarded(|| match s {
        Shape::Multipoint(m) => json!({"total": m.points().len(), "first": m.point(0).map(|p| a(Shape::Point(*p))), "past": m.point(m.points().len()).is_none(),
                                       "idx0": a(Shape::Point(m[0])), "inner": a(Shape::Multipoint(Multipoint::new(m.clone().into_inner())))}),
        Shape::MultipointM(m) => json!({"total": m.points().len(), "first": m.point(0).map(|p| a(Shape::PointM(*p))), "past": m.point(m.points().len()).is_none(),
                                        "idx0": a(Shape::PointM(m[0])), "inner": a(Shape::MultipointM(MultipointM::new(m.clone().into_inner())))}),
        Shape::MultipointZ(m) => json!({"total": m.points().len(), "first": m.point(0).map(|p| a(Shape::PointZ(*p))), "past": m.point(m.points().len()).is_none(),
                                        "idx0": a(Shape::PointZ(m[0])), "inner": a(Shape::MultipointZ(MultipointZ::new(m.clone().into_inner())))}),
        Shape::Polyline(l) => json!({"total": l.total_point_count(), "nparts": l.parts().len(), "past": l.part(l.parts().len()).is_none(),
                                     "part0len": l.part(0).map(|p| p.len()), "inner": a(Shape::Polyline(Polyline::with_parts(l.clone().into_inner())))}),
        Shape::PolylineM(l) => json!({"total": l.total_point_count(), "nparts": l.parts().len(), "past": l.part(l.parts().len()).is_none(),
                                      "part0len": l.part(0).map(|p| p.len()), "inner": a(Shape::PolylineM(PolylineM::with_parts(l.clone().into_inner())))}),
        Shape::PolylineZ(l) => json!({"total": l.total_point_count(), "nparts": l.parts().len(), "past": l.part(l.parts().len()).is_none(),
                                      "part0len": l.part(0).map(|p| p.len()), "inner": a(Shape::PolylineZ(PolylineZ::with_parts(l.clone().into_inner())))}),
        Shape::Polygon(g) => json!({"total": g.total_point_count(), "nparts": g.rings().len(), "past": g.ring(g.rings().len()).is_none(),
                                    "part0len": g.ring(0).map(|r| r.len()), "ringlens": g.rings().iter().map(|r| r.points().len()).collect::<Vec<_>>(),
                                    "empties": g.rings().iter().map(|r| r.is_empty()).collect::<Vec<_>>()}),
        Shape::PolygonM(g) => json!({"total": g.total_point_count(), "nparts": g.rings().len(), "past": g.ring(g.rings().len()).is_none(),
                                     "part0len": g.ring(0).map(|r| r.len()), "ringlens": g.rings().iter().map(|r| r.as_ref().len()).collect::<Vec<_>>(),
                                     "empties": g.rings().iter().map(|r| r.is_empty()).collect::<Vec<_>>()}),
        Shape::PolygonZ(g) => json!({"total": g.total_point_count(), "nparts": g.rings().len(), "past": g.ring(g.rings().len()).is_none(),
                                     "part0len": g.ring(0).map(|r| r.len()), "ringlens": g.rings().iter().map(|r| r[..].len()).collect::<Vec<_>>(),
                                     "empties": g.rings().iter().map(|r| r.is_empty()).collect::<Vec<_>>()}),
        Shape::Multipatch(m) => json!({"total": m.total_point_count(), "nparts": m.patches().len(), "past": m.patch(m.patches().len()).is_none(),
                                       "part0len": m.patch(0).map(|p| p.points().len()), "inner": a(Shape::Multipatch(Multipatch::with_parts(m.clone().into_inner())))}),
        _ => json!({}),
    });
    json!({"ev": "access", "shape": o.to_json(), "obs": v.unwrap_or(json!({"panic": true}))})
}

/// multipoint! and polyline! in their tuple and struct forms against the constructors
fn macro_events(tr: &mut Trace, c: &Conc, r: &mut Rng) {
    let g = GenCfg::small();
    for &t in &[8, 28, 18, 3, 23, 13] {
        let p: Vec<APoint> = (0..4).map(|_| gen_point(r, t, &g)).collect();
        let (x, y, z, m) = (|i: usize| c.x(p[i][0]), |i: usize| c.x(p[i][1]), |i: usize| c.z(p[i][2]), |i: usize| c.z(p[i][3]));
        let (tuple_form, struct_form, a): (Shape, Shape, AShape) = match t {
            8 => (Shape::Multipoint(shapefile::multipoint![(x(0), y(0)), (x(1), y(1)), (x(2), y(2))]),
                  Shape::Multipoint(shapefile::multipoint![{x: x(0), y: y(0)}, {x: x(1), y: y(1)}, {x: x(2), y: y(2)}]),
                  AShape { t, parts: vec![p[..3].to_vec()], kinds: vec![], bbox: [0; 8] }),
            28 => (Shape::MultipointM(shapefile::multipoint![(x(0), y(0), m(0)), (x(1), y(1), m(1)), (x(2), y(2), m(2))]),
                   Shape::MultipointM(shapefile::multipoint![{x: x(0), y: y(0), m: m(0)}, {x: x(1), y: y(1), m: m(1)}, {x: x(2), y: y(2), m: m(2)}]),
                   AShape { t, parts: vec![p[..3].to_vec()], kinds: vec![], bbox: [0; 8] }),
            18 => (Shape::MultipointZ(shapefile::multipoint![(x(0), y(0), z(0), m(0)), (x(1), y(1), z(1), m(1)), (x(2), y(2), z(2), m(2))]),
                   Shape::MultipointZ(shapefile::multipoint![{x: x(0), y: y(0), z: z(0), m: m(0)}, {x: x(1), y: y(1), z: z(1), m: m(1)}, {x: x(2), y: y(2), z: z(2), m: m(2)}]),
                   AShape { t, parts: vec![p[..3].to_vec()], kinds: vec![], bbox: [0; 8] }),
            3 => (Shape::Polyline(shapefile::polyline![[(x(0), y(0)), (x(1), y(1))], [(x(2), y(2)), (x(3), y(3))]]),
                  Shape::Polyline(shapefile::polyline![[{x: x(0), y: y(0)}, {x: x(1), y: y(1)}], [{x: x(2), y: y(2)}, {x: x(3), y: y(3)}]]),
                  AShape { t, parts: vec![p[..2].to_vec(), p[2..].to_vec()], kinds: vec![], bbox: [0; 8] }),
            23 => (Shape::PolylineM(shapefile::polyline![[(x(0), y(0), m(0)), (x(1), y(1), m(1))], [(x(2), y(2), m(2)), (x(3), y(3), m(3))]]),
                   Shape::PolylineM(shapefile::polyline![[{x: x(0), y: y(0), m: m(0)}, {x: x(1), y: y(1), m: m(1)}], [{x: x(2), y: y(2), m: m(2)}, {x: x(3), y: y(3), m: m(3)}]]),
                   AShape { t, parts: vec![p[..2].to_vec(), p[2..].to_vec()], kinds: vec![], bbox: [0; 8] }),
            _ => (Shape::PolylineZ(shapefile::polyline![[(x(0), y(0), z(0), m(0)), (x(1), y(1), z(1), m(1))], [(x(2), y(2), z(2), m(2)), (x(3), y(3), z(3), m(3))]]),
                  Shape::PolylineZ(shapefile::polyline![[{x: x(0), y: y(0), z: z(0), m: m(0)}, {x: x(1), y: y(1), z: z(1), m: m(1)}], [{x: x(2), y: y(2), z: z(2), m: m(2)}, {x: x(3), y: y(3), z: z(3), m: m(3)}]]),
                  AShape { t, parts: vec![p[..2].to_vec(), p[2..].to_vec()], kinds: vec![], bbox: [0; 8] }),
        };
        let built = build(c, &a);
        tr.run(json!({"ev": "macro", "t": t, "built": abstract_shape(c, &built).to_json(),
                      "tuple": abstract_shape(c, &tuple_form).to_json(), "struct": abstract_shape(c, &struct_form).to_json()}));
    }
}

fn sizes_event(shapes: &[Shape], shp: &[u8]) -> Value {
    let mut announced = vec![];
    let mut emitted = vec![];
    for s in shapes {
        let (a, e) = with_inner!(s, x => {
            let mut v: Vec<u8> = vec![];
            let r = record::WritableShape::write_to(x, &mut v);
            (record::WritableShape::size_in_bytes(x) as i64, if r.is_ok() { v.len() as i64 } else { -1 })
        }, (0, 0));
        announced.push(a);
        emitted.push(e);
    }
    json!({"ev": "sizes", "announced": announced, "emitted": emitted, "shp": jbytes(shp)})
}

/// emit all events of one case
struct PendingGuard;
impl Drop for PendingGuard {
    fn drop(&mut self) {
        pending_done();
    }
}

thread_local! {
    /// light cases (the size-threshold sweep): one write, one sequential and one random-access read
    static LIGHT: std::cell::Cell<bool> = std::cell::Cell::new(false);
}

/// content size (type code included) of a shape of type t with p parts and n points
fn content_size(t: i32, p: usize, n: usize) -> usize {
    let xy = match family(t) {
        "multipoint" => 4 + 32 + 4 + 16 * n,
        "multipatch" => 4 + 32 + 4 + 4 + 8 * p + 16 * n,
        _ => 4 + 32 + 4 + 4 + 4 * p + 16 * n,
    };
    xy + if stores_z(t) { 16 + 8 * n } else { 0 } + if stores_m(t) { 16 + 8 * n } else { 0 }
}

/// shapes whose serialised size sits on and next to a power of two (content, content + record header, content
/// without the type code): the sizes at which buffers of "round" capacities fill up exactly
fn threshold_shapes(r: &mut Rng, t: i32, thresholds: &[usize], per: usize) -> Vec<AShape> {
    let g = GenCfg { max_parts: 1, max_pts: 1, special_pct: 5, xy_span: 8 };
    let mut out = vec![];
    for &th in thresholds {
        for target in [th - 12, th - 8, th - 4, th, th + 4] {
            let mut found = 0;
            'search: for p in 1..=4usize {
                let minpts = if family(t) == "multipoint" { 1 } else { 2 * p };
                for n in minpts..=(th / 16 + 4) {
                    if content_size(t, p, n) == target {
                        let parts: Vec<Vec<APoint>> = if family(t) == "multipoint" {
                            vec![(0..n).map(|_| gen_point(r, t, &g)).collect()]
                        } else {
                            // n points over p parts, each at least 2
                            let mut lens = vec![2usize; p];
                            lens[p - 1] += n - 2 * p;
                            lens.iter().map(|&l| (0..l).map(|_| gen_point(r, t, &g)).collect()).collect()
                        };
                        let kinds: Vec<i32> = if t == 31 { (0..p).map(|i| (i % 2) as i32).collect() } else if family(t) == "polygon" { vec![0; p] } else { vec![] };
                        out.push(AShape { t, parts, kinds, bbox: [0; 8] });
                        found += 1;
                        if found >= per { break 'search; }
                        break;
                    }
                }
                if family(t) == "multipoint" { break; }
            }
        }
    }
    out
}

pub fn run_case(tr: &mut Trace, c: &Conc, prop: &str, t: i32, ashapes: &[AShape], tmp: &Path, id: usize) {
    let light = LIGHT.with(|l| l.get());
    pending(&json!({"call": "codec case: construct, write, read", "t": t, "id": id,
                    "shapes": ashapes.iter().take(3).map(|a| a.to_json()).collect::<Vec<_>>()}));
    let _done = PendingGuard;
    let built = guarded(|| ashapes.iter().map(|a| build(c, a)).collect::<Vec<Shape>>());
    let shapes = match built {
        Ok(s) => s,
        Err(p) => {
            tr.run(json!({"ev": "case", "id": id, "t": t, "shapes": [], "buildPanic": p}));
            return;
        }
    };
    let orig: Vec<AShape> = shapes.iter().map(|s| abstract_shape(c, s)).collect();
    let n = shapes.len();
    let ft = if n == 0 { 0 } else { t };
    tr.run(json!({"ev": "case", "id": id, "t": ft, "n": n,
                  "shapes": orig.iter().map(|a| a.to_json()).collect::<Vec<_>>()}));
    let all = prop == "all";
    let (shp, shx) = match write_cursor(&shapes, false) {
        Ok(x) => x,
        Err(e) => {
            tr.emit(json!({"ev": "writefail", "msg": e}));
            return;
        }
    };
    if light {
        if prop != "C18" {
            tr.emit(json!({"ev": "written", "via": "cursor-drop", "shp": jbytes(&shp), "shx": jbytes(&shx)}));
        }
        if all || prop == "C18" {
            tr.emit(sizes_event(&shapes, &shp));
        }
        if all || prop == "C01" {
            let r = read_cursor_route(c, &shp, Some(&shx), t, true, false, n);
            tr.emit(json!({"ev": "readback", "generic": true, "random": false, "withShx": true, "via": "cursor", "res": r}));
            let r = read_cursor_route(c, &shp, None, t, false, false, n);
            tr.emit(json!({"ev": "readback", "generic": false, "random": false, "withShx": false, "via": "cursor", "res": r}));
        }
        return;
    }
    let path = path_variant(tmp, "c", id);
    let wrote_path = write_path(&shapes, &path);
    let shxp = path.with_extension("shx");
    if all || prop == "C02" || prop == "C04" || prop == "C05" {
        tr.emit(json!({"ev": "written", "via": "cursor-drop", "shp": jbytes(&shp), "shx": jbytes(&shx)}));
        match write_cursor(&shapes, true) {
            Ok((a, b)) => tr.emit(json!({"ev": "written", "via": "cursor-finalize", "shp": jbytes(&a), "shx": jbytes(&b)})),
            Err(e) => tr.emit(json!({"ev": "writefail", "msg": e})),
        }
        if n > 0 {
            match write_cursor_at(&shapes, false, 37) {
                Ok((a, b)) => tr.emit(json!({"ev": "written", "via": "cursor-positioned", "shp": jbytes(&a), "shx": jbytes(&b)})),
                Err(e) => tr.emit(json!({"ev": "writefail", "msg": e})),
            }
        }
        match &wrote_path {
            Ok(()) => {
                let a = std::fs::read(&path).unwrap_or_default();
                let b = std::fs::read(&shxp).unwrap_or_default();
                tr.emit(json!({"ev": "written", "via": "path", "shp": jbytes(&a), "shx": jbytes(&b)}));
            }
            Err(e) => tr.emit(json!({"ev": "writefail", "msg": e})),
        }
    }
    if all || prop == "C18" {
        tr.emit(sizes_event(&shapes, &shp));
    }
    if all || prop == "C05" || prop == "C02" {
        tr.emit(header_event(c, &shp));
    }
    if (all || prop == "C01") && id % 3 == 0 {
        for s in &shapes {
            tr.emit(access_event(c, s));
        }
    }
    if (all || prop == "C01") && n >= 1 {
        for &generic in &[true, false] {
            for &random in &[false, true] {
                for &with_shx in &[true, false] {
                    let r = read_cursor_route(c, &shp, if with_shx { Some(&shx) } else { None }, t, generic, random, n);
                    tr.emit(json!({"ev": "readback", "generic": generic, "random": random, "withShx": with_shx,
                                   "via": "cursor", "res": r}));
                }
            }
            if generic && t != 0 {
                for refused in [true, false] {
                    let r = read_used_route(c, &shp, &shx, t, refused);
                    tr.emit(json!({"ev": "readback", "generic": true, "random": false, "withShx": true,
                                   "via": if refused { "after-refused-nth" } else { "after-walk-past-end" }, "res": r}));
                }
            }
            // the Iterator adaptors that an implementation may override: nth(k) then the rest, count(), last()
            for &with_shx in &[true, false] {
                for k in 0..3usize.min(n) {
                    let r = read_adaptor_route(c, &shp, if with_shx { Some(&shx) } else { None }, t, generic, k);
                    tr.emit(json!({"ev": "readback", "generic": generic, "random": false, "withShx": with_shx, "via": "nth", "skip": k, "res": r}));
                }
            }
            for &with_shx in &[true, false] {
                let r = read_collect_route(c, &shp, if with_shx { Some(&shx) } else { None }, t, generic);
                tr.emit(json!({"ev": "readback", "generic": generic, "random": false, "withShx": with_shx, "via": "collect", "res": r}));
            }
        }
        if wrote_path.is_ok() {
            for &with_shx in &[true, false] {
                if !with_shx {
                    let _ = std::fs::remove_file(&shxp);
                }
                for &generic in &[true, false] {
                    for &random in &[false, true] {
                        let r = read_path_route(c, &path, t, generic, random, n, false);
                        tr.emit(json!({"ev": "readback", "generic": generic, "random": random, "withShx": with_shx,
                                       "via": "path", "res": r}));
                    }
                    let r = read_path_route(c, &path, t, generic, false, n, true);
                    tr.emit(json!({"ev": "readback", "generic": generic, "random": false, "withShx": with_shx,
                                   "via": "oneliner", "res": r}));
                }
            }
        }
    }
    let _ = std::fs::remove_file(&path);
    let _ = std::fs::remove_file(&shxp);
}

/// special values at every vertex position in turn
fn special_sweep(r: &mut Rng, t: i32) -> Vec<AShape> {
    let g = GenCfg::small();
    let base = gen_shape_with(r, t, &g, true);
    let mut out = vec![];
    let dims: Vec<usize> = [(2usize, stores_z(t)), (3usize, stores_m(t))].iter().filter(|d| d.1).map(|d| d.0).collect();
    for (pi, part) in base.parts.iter().enumerate() {
        for qi in 0..part.len() {
            for &d in &dims {
                let sp = *r.pick(&[-8, -7, -6, ND, -4, NANV]);
                let mut s = base.clone();
                s.parts[pi][qi][d] = sp;
                out.push(s);
            }
        }
    }
    out
}

/// C18 on large shapes: only the counts cross to TLC (the size algebra needs nothing else)
fn big_size_events(tr: &mut Trace, c: &Conc, r: &mut Rng, t: i32, n: usize) {
    for _ in 0..n {
        let np = match family(t) {
            "point" | "multipoint" => 1,
            _ => 1 + r.below(2000),
        };
        let total = if family(t) == "point" { 1 } else { np * 2 + r.below(100_000) };
        // distribute `total` points over np parts (each at least 2)
        let mut lens = vec![2usize; np];
        if family(t) == "point" {
            lens = vec![1];
        } else {
            let mut left = total.saturating_sub(2 * np);
            for l in lens.iter_mut() {
                let take = if left == 0 { 0 } else { r.below(left.min(400) + 1) };
                *l += take;
                left -= take;
            }
            lens[0] += left;
        }
        let p: APoint = [1, 2, if stores_z(t) { 1 } else { 0 }, if stores_m(t) { 2 } else { 0 }];
        let a = AShape { t, parts: lens.iter().map(|l| vec![p; *l]).collect(), kinds: match family(t) { "polygon" => vec![0; np], "multipatch" => (0..np).map(|i| (i % 6) as i32).collect(), _ => vec![] }, bbox: [0; 8] };
        let s = match guarded(|| build(c, &a)) { Ok(s) => s, Err(_) => continue };
        let o = abstract_shape(c, &s);     // counts after the constructors (rings may have been closed)
        let (announced, emitted) = with_inner!(&s, x => {
            let mut v: Vec<u8> = vec![];
            let ok = record::WritableShape::write_to(x, &mut v).is_ok();
            (record::WritableShape::size_in_bytes(x) as i64, if ok { v.len() as i64 } else { -1 })
        }, (0, 0));
        // the content-length field of the record the real writer emits
        let dest = LogDest::new();
        {
            let mut w = ShapeWriter::new(dest.clone());
            let _ = write_all_shapes(&mut w, std::slice::from_ref(&s));
        }
        let b = dest.bytes();
        let words = if b.len() >= 108 { i32::from_be_bytes([b[104], b[105], b[106], b[107]]) as i64 } else { -1 };
        tr.run(json!({"ev": "bigsize", "t": t, "nparts": o.parts.len(), "npoints": o.npoints(), "announced": announced,
                      "emitted": emitted, "words": words, "fileLen": b.len()}));
    }
}

/// C18 on shapes that come out of the READER (not out of the constructors): ring patches and rings that are OPEN in
/// the file stay open in the value; announced size, emitted bytes and the record header of a re-write still agree
fn reread_size_events(tr: &mut Trace, r: &mut Rng) {
    use crate::raw::{encode_files, RawShape};
    for &t in &[31, 5, 15, 25] {
        for _ in 0..3 {
            let np = 1 + r.below(3);
            let parts: Vec<Vec<[f64; 4]>> = (0..np).map(|k| (0..3 + r.below(3)).map(|i| [i as f64 + k as f64, (i * i) as f64, 1.0, 2.0]).collect()).collect();   // first != last
            let kinds: Vec<i32> = if t == 31 { (0..np).map(|k| [2, 3, 4, 5, 0, 1][(k + r.below(6)) % 6]).collect() } else { vec![] };
            let raw = RawShape { t, parts, kinds, bbox: [0.0, 0.0, 9.0, 30.0, 1.0, 1.0, 2.0, 2.0] };
            let (shp, _) = encode_files(t, &[raw]);
            let s = match guarded(|| ShapeReader::new(Cursor::new(shp)).and_then(|rd| rd.read())) { Ok(Ok(mut v)) if v.len() == 1 => v.remove(0), _ => continue };
            let counts = crate::raw::raw_of(&s);
            let (announced, emitted) = with_inner!(&s, x => {
                let mut v: Vec<u8> = vec![];
                let ok = record::WritableShape::write_to(x, &mut v).is_ok();
                (record::WritableShape::size_in_bytes(x) as i64, if ok { v.len() as i64 } else { -1 })
            }, (0, 0));
            let dest = LogDest::new();
            {
                let mut w = ShapeWriter::new(dest.clone());
                let _ = write_all_shapes(&mut w, std::slice::from_ref(&s));
            }
            let b = dest.bytes();
            let words = if b.len() >= 108 { i32::from_be_bytes([b[104], b[105], b[106], b[107]]) as i64 } else { -1 };
            tr.run(json!({"ev": "bigsize", "t": t, "nparts": counts.parts.len(), "npoints": counts.parts.iter().map(|p| p.len()).sum::<usize>(),
                          "announced": announced, "emitted": emitted, "words": words, "fileLen": b.len(), "reread": true}));
        }
    }
}

pub fn run(a: &Args) {
    let prop = a.get("prop", "all");
    let out = PathBuf::from(a.get("out", "work/codec"));
    std::fs::create_dir_all(&out).unwrap();
    let seed = a.num("seed", 1);
    let chunks = a.num("chunks", 4) as usize;
    let per_type = a.num("cases", 6) as usize;
    let large = a.num("large", 1) as usize;
    let tmp = TmpDir::new(&out, "codec");
    let cases_file = a.0.get("casefile").cloned();
    let nonan = a.has("nonan");
    let mut total_cases = 0usize;
    let mut total_lines = 0usize;
    let mut files = vec![];
    for ch in 0..chunks {
        let mut r = Rng::new(seed.wrapping_mul(1000003).wrapping_add(ch as u64));
        let exact = ch % 2 == 0;
        // the first exact trace files pin the exponent of the dyadic X/Y values at both extremes (areas of 2^-80 and
        // 2^80: ring roles are claimed for ANY non-zero area), the others draw it
        let c = Conc::new_with(&mut r, exact, if exact { match ch { 0 => Some(-40), 2 => Some(40), _ => None } } else { None }, false);
        let mut meta = c.meta();
        meta["prop"] = json!(prop);
        meta["seed"] = json!(seed);
        meta["family"] = json!("codec");
        let mut tr = Trace::create(&out.join(format!("trace-{:03}.ndjson", ch)), meta);
        let mut id = 0usize;
        if let Some(cf) = &cases_file {
            // cases enumerated by TLC (spec -> implementation direction); each chunk takes a slice
            let text = std::fs::read_to_string(cf).unwrap();
            for (i, line) in text.lines().enumerate() {
                if i % chunks != ch || line.trim().is_empty() {
                    continue;
                }
                let v: Value = serde_json::from_str(line).unwrap();
                let t = v["t"].as_i64().unwrap() as i32;
                let shapes: Vec<AShape> = v["shapes"].as_array().unwrap().iter().map(AShape::from_json).collect();
                id += 1;
                run_case(&mut tr, &c, &prop, t, &shapes, &tmp.0, id);
            }
        }
        if prop == "C01" || prop == "all" {
            for _ in 0..5 {
                macro_events(&mut tr, &c, &mut r);
            }
        }
        if prop == "C18" || prop == "all" {
            reread_size_events(&mut tr, &mut r);
        }
        for &t in ALL_TYPES.iter() {
            // the empty file (C02: 0..n shapes)
            if ch == 0 {
                id += 1;
                run_case(&mut tr, &c, &prop, t, &[], &tmp.0, id);
            }
            for k in 0..per_type {
                let g = if k % 3 == 2 { GenCfg::medium() } else { GenCfg::small() };
                let n = 1 + r.below(4);
                let shapes: Vec<AShape> = (0..n).map(|_| gen_shape_with(&mut r, t, &g, nonan)).collect();
                id += 1;
                run_case(&mut tr, &c, &prop, t, &shapes, &tmp.0, id);
            }
            // special values at every position of a small shape, one file per position
            if ch < 2 || a.has("sweep") {
                for s in special_sweep(&mut r, t) {
                    id += 1;
                    let other = gen_shape(&mut r, t, &GenCfg::small());
                    run_case(&mut tr, &c, &prop, t, &[other, s], &tmp.0, id);
                }
            }
            if prop == "C18" || prop == "all" {
                big_size_events(&mut tr, &c, &mut r, t, a.num("bigsizes", 3) as usize);
                id += a.num("bigsizes", 3) as usize;
            }
            if ch == 0 && (prop == "C01" || prop == "C02" || prop == "all") && family(t) != "point" {
                // beyond the usual counts: more than 1 024 parts, more than 1 024 points
                let g = GenCfg { max_parts: 1, max_pts: 1, special_pct: 5, xy_span: 8 };
                let many_parts = match family(t) {
                    "multipoint" => AShape { t, parts: vec![(0..1100).map(|_| gen_point(&mut r, t, &g)).collect()], kinds: vec![], bbox: [0; 8] },
                    _ => AShape { t, parts: (0..1100).map(|_| (0..3).map(|_| gen_point(&mut r, t, &g)).collect()).collect(),
                                  kinds: (0..1100).map(|i| if t == 31 { (i % 6) as i32 } else { (i % 2) as i32 }).collect::<Vec<_>>().into_iter().filter(|_| t == 31 || family(t) == "polygon").collect(), bbox: [0; 8] },
                };
                id += 1;
                run_case(&mut tr, &c, &prop, t, &[many_parts], &tmp.0, id);
            }
            if prop == "C01" || prop == "C05" || prop == "all" {
                raw_events(&mut tr, &mut r, t, a.num("raw", 6) as usize);
                id += a.num("raw", 6) as usize;
            }
            if ch == 1 % chunks && family(t) != "point" {
                // sizes on and around powers of two, one shape per file
                let ths: Vec<usize> = if a.get("tier", "quick") == "thorough" { vec![128, 256, 512, 1024, 2048, 4096, 8192, 16384, 65536] } else { vec![256, 1024, 4096] };
                let per = if a.get("tier", "quick") == "thorough" { 2 } else { 1 };
                LIGHT.with(|l| l.set(true));
                for s in threshold_shapes(&mut r, t, &ths, per) {
                    id += 1;
                    run_case(&mut tr, &c, &prop, t, &[s], &tmp.0, id);
                }
                LIGHT.with(|l| l.set(false));
            }
            if ch == 2 % chunks && matches!(family(t), "polyline" | "polygon" | "multipatch") {
                // parts of very different lengths in every order (a part of 600 points among parts of 3)
                let g = GenCfg { max_parts: 1, max_pts: 1, special_pct: 5, xy_span: 8 };
                LIGHT.with(|l| l.set(true));
                for lens in [vec![3usize, 600], vec![600, 3], vec![3, 600, 3, 520]] {
                    let parts: Vec<Vec<APoint>> = lens.iter().map(|&l| (0..l).map(|_| gen_point(&mut r, t, &g)).collect()).collect();
                    let kinds: Vec<i32> = if t == 31 { (0..lens.len()).map(|i| (i % 2) as i32).collect() } else if family(t) == "polygon" { vec![0; lens.len()] } else { vec![] };
                    id += 1;
                    run_case(&mut tr, &c, &prop, t, &[AShape { t, parts, kinds, bbox: [0; 8] }], &tmp.0, id);
                }
                LIGHT.with(|l| l.set(false));
            }
            for _ in 0..large {
                let n = 1 + r.below(3);
                let shapes: Vec<AShape> = (0..n).map(|_| gen_shape_with(&mut r, t, &GenCfg::large(), nonan)).collect();
                id += 1;
                run_case(&mut tr, &c, &prop, t, &shapes, &tmp.0, id);
            }
        }
        total_cases += id;
        let (p, lines, _) = tr.finish();
        total_lines += lines;
        files.push(p.to_string_lossy().to_string());
    }
    println!("{}", json!({"cases": total_cases, "lines": total_lines, "files": files}));
}
