//! Instrumented in-memory destinations and sources.
//!
//! `LogDest` is a `Write + Seek` over a shared byte vector that logs every operation,
//! can fail the k-th operation (one-shot or persistent, optionally after a partial
//! write) and can accept fewer bytes than offered.  `LogSource` is the `Read + Seek`
//! counterpart.  They are the only instrumentation the checks need: the library is
//! generic over its destinations and sources.
use serde_json::{json, Value};
use std::cell::RefCell;
use std::io::{self, Read, Seek, SeekFrom, Write};
use std::rc::Rc;

#[derive(Clone, Debug, PartialEq)]
pub enum Op {
    Write { pos: u64, data: Vec<u8> },
    Seek { to: u64 },
    Flush,
}

#[derive(Default)]
pub struct DestState {
    pub bytes: Vec<u8>,
    pub pos: u64,
    pub ops: Vec<Op>,
    /// index (0-based, over all write/seek/flush calls) of the operation that fails
    pub fail_at: Option<usize>,
    pub persistent: bool,
    /// bytes accepted by the failing write before it reports the error
    pub partial: usize,
    pub failing_now: bool,
    /// number of calls seen (including failed ones)
    pub calls: usize,
    /// accept at most this many bytes per write call (0 = unlimited)
    pub chunk: usize,
    /// explicit schedule of per-call limits (cycled), overrides chunk when non-empty
    pub schedule: Vec<usize>,
    pub sched_pos: usize,
    /// how many faults were delivered
    pub faults_fired: usize,
    /// length of ops at the last flush that succeeded
    pub flushed_ops: usize,
    /// failing seeks and flushes report ErrorKind::Interrupted (writes never do: write_all retries those by contract)
    pub interrupted: bool,
    /// a fault was delivered to a seek or a flush
    pub fault_nonwrite: bool,
    /// the failing write accepts nothing and says so (Ok(0), what a full fixed-size buffer does) instead of
    /// returning an error: write_all turns that into ErrorKind::WriteZero
    pub zero_mode: bool,
    /// every flush fails (writes and seeks work): what a destination does whose buffer cannot be emptied
    pub fail_flushes: bool,
}

pub fn injected() -> io::Error {
    io::Error::new(io::ErrorKind::Other, "INJECTED fault")
}

/// the error of an operation std never retries by itself (seek, flush): any kind, EINTR's among them
pub fn injected_kind(interrupted: bool) -> io::Error {
    if interrupted {
        io::Error::new(io::ErrorKind::Interrupted, "INJECTED fault (interrupted)")
    } else {
        injected()
    }
}

#[derive(Clone)]
pub struct LogDest(pub Rc<RefCell<DestState>>);

impl LogDest {
    pub fn new() -> Self {
        LogDest(Rc::new(RefCell::new(DestState::default())))
    }
    /// a destination that already holds `n` bytes of other content (a reused buffer)
    pub fn prefilled(n: usize) -> Self {
        let d = LogDest::new();
        d.0.borrow_mut().bytes = (0..n).map(|i| (i % 253) as u8 | 1).collect();
        d
    }
    pub fn bytes(&self) -> Vec<u8> {
        self.0.borrow().bytes.clone()
    }
    pub fn ops(&self) -> Vec<Op> {
        self.0.borrow().ops.clone()
    }
    pub fn nops(&self) -> usize {
        self.0.borrow().ops.len()
    }
    pub fn calls(&self) -> usize {
        self.0.borrow().calls
    }
    pub fn set_fault(&self, k: Option<usize>, persistent: bool, partial: usize) {
        let mut s = self.0.borrow_mut();
        s.fail_at = k;
        s.persistent = persistent;
        s.partial = partial;
        s.failing_now = false;
    }
    pub fn set_interrupted(&self, on: bool) {
        self.0.borrow_mut().interrupted = on;
    }
    pub fn set_fail_flushes(&self, on: bool) {
        self.0.borrow_mut().fail_flushes = on;
    }
    pub fn set_zero_mode(&self, on: bool) {
        self.0.borrow_mut().zero_mode = on;
    }
    pub fn fault_nonwrite(&self) -> bool {
        self.0.borrow().fault_nonwrite
    }
    pub fn heal(&self) {
        let mut s = self.0.borrow_mut();
        s.fail_at = None;
        s.failing_now = false;
        s.fail_flushes = false;
    }
    pub fn faults_fired(&self) -> usize {
        self.0.borrow().faults_fired
    }
    pub fn set_chunk(&self, n: usize) {
        self.0.borrow_mut().chunk = n;
    }
    pub fn set_schedule(&self, s: Vec<usize>) {
        self.0.borrow_mut().schedule = s;
    }
    /// all data flushed (no write after the last successful flush)?
    pub fn is_flushed(&self) -> bool {
        let s = self.0.borrow();
        s.flushed_ops == s.ops.len() || !s.ops[s.flushed_ops..].iter().any(|o| matches!(o, Op::Write { .. }))
    }
}

impl DestState {
    /// Some(err) when this call must fail
    fn fault(&mut self) -> bool {
        let idx = self.calls;
        self.calls += 1;
        if self.failing_now && self.persistent {
            self.faults_fired += 1;
            return true;
        }
        if let Some(k) = self.fail_at {
            if idx == k {
                self.faults_fired += 1;
                if self.persistent {
                    self.failing_now = true;
                } else {
                    self.fail_at = None;
                }
                return true;
            }
        }
        false
    }
    fn apply_write(&mut self, data: &[u8]) {
        let pos = self.pos as usize;
        if self.bytes.len() < pos {
            self.bytes.resize(pos, 0);
        }
        let end = pos + data.len();
        if self.bytes.len() < end {
            self.bytes.resize(end, 0);
        }
        self.bytes[pos..end].copy_from_slice(data);
        self.ops.push(Op::Write { pos: self.pos, data: data.to_vec() });
        self.pos = end as u64;
    }
}

impl Write for LogDest {
    fn write(&mut self, buf: &[u8]) -> io::Result<usize> {
        let mut s = self.0.borrow_mut();
        if buf.is_empty() {
            return Ok(0);
        }
        if s.fault() {
            if s.zero_mode {
                return Ok(0);
            }
            let n = s.partial.min(buf.len().saturating_sub(1));
            if n > 0 {
                // a partial write followed by the error on the rest: report the bytes first
                let part = buf[..n].to_vec();
                s.apply_write(&part);
                // the error surfaces on the next call of write_all; make that call fail
                s.partial = 0;
                s.fail_at = Some(s.calls);
                if !s.persistent {
                    s.faults_fired -= 1;
                }
                return Ok(n);
            }
            return Err(injected());
        }
        let mut n = buf.len();
        if !s.schedule.is_empty() {
            let i = s.sched_pos % s.schedule.len();
            s.sched_pos += 1;
            let lim = s.schedule[i].max(1);
            n = n.min(lim);
        } else if s.chunk > 0 {
            n = n.min(s.chunk);
        }
        let part = buf[..n].to_vec();
        s.apply_write(&part);
        Ok(n)
    }
    fn flush(&mut self) -> io::Result<()> {
        let mut s = self.0.borrow_mut();
        if s.fail_flushes {
            s.calls += 1;
            s.faults_fired += 1;
            s.fault_nonwrite = true;
            return Err(injected_kind(s.interrupted));
        }
        if s.fault() {
            s.fault_nonwrite = true;
            return Err(injected_kind(s.interrupted));
        }
        s.ops.push(Op::Flush);
        s.flushed_ops = s.ops.len();
        Ok(())
    }
}

impl Seek for LogDest {
    fn seek(&mut self, to: SeekFrom) -> io::Result<u64> {
        let mut s = self.0.borrow_mut();
        if s.fault() {
            s.fault_nonwrite = true;
            return Err(injected_kind(s.interrupted));
        }
        let np: i64 = match to {
            SeekFrom::Start(n) => n as i64,
            SeekFrom::End(d) => s.bytes.len() as i64 + d,
            SeekFrom::Current(d) => s.pos as i64 + d,
        };
        if np < 0 {
            return Err(io::Error::new(io::ErrorKind::InvalidInput, "negative seek"));
        }
        s.pos = np as u64;
        s.ops.push(Op::Seek { to: np as u64 });
        Ok(s.pos)
    }
}

/// coalesce consecutive writes at consecutive positions: the effects of a call,
/// independent of how the code chunked them (DESIGN 4.2)
pub fn effects(ops: &[Op]) -> Vec<(u64, Vec<u8>)> {
    let mut out: Vec<(u64, Vec<u8>)> = vec![];
    for op in ops {
        if let Op::Write { pos, data } = op {
            if let Some(last) = out.last_mut() {
                if last.0 + last.1.len() as u64 == *pos {
                    last.1.extend_from_slice(data);
                    continue;
                }
            }
            out.push((*pos, data.clone()));
        }
    }
    out
}

pub fn effects_json(ops: &[Op]) -> Value {
    Value::Array(
        effects(ops)
            .into_iter()
            .map(|(pos, data)| json!({"off": pos, "bytes": crate::jbytes(&data)}))
            .collect(),
    )
}

/// rebuild the persisted bytes from the first `nops` operations plus `cut` bytes of
/// the next one (when it is a write)
pub fn replay_prefix(ops: &[Op], nops: usize, cut: usize) -> Vec<u8> {
    let mut st = DestState::default();
    for op in &ops[..nops] {
        match op {
            Op::Write { pos, data } => {
                st.pos = *pos;
                st.apply_write(data);
            }
            _ => {}
        }
    }
    if cut > 0 {
        if let Some(Op::Write { pos, data }) = ops.get(nops) {
            st.pos = *pos;
            let n = cut.min(data.len());
            st.apply_write(&data[..n]);
        }
    }
    st.bytes
}

// ---------------------------------------------------------------------------------

#[derive(Default)]
pub struct SrcState {
    pub bytes: Vec<u8>,
    pub pos: u64,
    pub calls: usize,
    pub fail_at: Option<usize>,
    pub persistent: bool,
    pub failing_now: bool,
    pub chunk: usize,
    pub schedule: Vec<usize>,
    pub sched_pos: usize,
    pub faults_fired: usize,
    pub reads: usize,
    pub seeks: usize,
    /// failing seeks report ErrorKind::Interrupted (reads never do: read_exact retries those by contract)
    pub interrupted: bool,
    pub fault_on_seek: bool,
    /// the kind a failing READ reports (never Interrupted: read_exact retries that one by contract)
    pub read_kind: Option<io::ErrorKind>,
}

#[derive(Clone)]
pub struct LogSource(pub Rc<RefCell<SrcState>>);

impl LogSource {
    pub fn new(bytes: Vec<u8>) -> Self {
        LogSource(Rc::new(RefCell::new(SrcState { bytes, ..Default::default() })))
    }
    pub fn set_fault(&self, k: Option<usize>, persistent: bool) {
        let mut s = self.0.borrow_mut();
        s.fail_at = k;
        s.persistent = persistent;
        s.failing_now = false;
    }
    pub fn set_chunk(&self, n: usize) {
        self.0.borrow_mut().chunk = n;
    }
    pub fn set_schedule(&self, v: Vec<usize>) {
        self.0.borrow_mut().schedule = v;
    }
    pub fn set_interrupted(&self, on: bool) {
        self.0.borrow_mut().interrupted = on;
    }
    pub fn set_read_kind(&self, k: io::ErrorKind) {
        self.0.borrow_mut().read_kind = Some(k);
    }
    pub fn fault_on_seek(&self) -> bool {
        self.0.borrow().fault_on_seek
    }
    pub fn calls(&self) -> usize {
        self.0.borrow().calls
    }
    pub fn faults_fired(&self) -> usize {
        self.0.borrow().faults_fired
    }
    pub fn pos(&self) -> u64 {
        self.0.borrow().pos
    }
}

impl SrcState {
    fn fault(&mut self) -> bool {
        let idx = self.calls;
        self.calls += 1;
        if self.failing_now && self.persistent {
            self.faults_fired += 1;
            return true;
        }
        if let Some(k) = self.fail_at {
            if idx == k {
                self.faults_fired += 1;
                if self.persistent {
                    self.failing_now = true;
                } else {
                    self.fail_at = None;
                }
                return true;
            }
        }
        false
    }
}

impl Read for LogSource {
    fn read(&mut self, buf: &mut [u8]) -> io::Result<usize> {
        let mut s = self.0.borrow_mut();
        if buf.is_empty() {
            return Ok(0);
        }
        s.reads += 1;
        if s.fault() {
            return Err(match s.read_kind {
                Some(k) => io::Error::new(k, "INJECTED fault (read)"),
                None => injected(),
            });
        }
        let pos = s.pos as usize;
        if pos >= s.bytes.len() {
            return Ok(0);
        }
        let mut n = buf.len().min(s.bytes.len() - pos);
        if !s.schedule.is_empty() {
            let i = s.sched_pos % s.schedule.len();
            s.sched_pos += 1;
            n = n.min(s.schedule[i].max(1));
        } else if s.chunk > 0 {
            n = n.min(s.chunk);
        }
        buf[..n].copy_from_slice(&s.bytes[pos..pos + n]);
        s.pos += n as u64;
        Ok(n)
    }
}

impl Seek for LogSource {
    fn seek(&mut self, to: SeekFrom) -> io::Result<u64> {
        let mut s = self.0.borrow_mut();
        s.seeks += 1;
        if s.fault() {
            s.fault_on_seek = true;
            return Err(injected_kind(s.interrupted));
        }
        let np: i64 = match to {
            SeekFrom::Start(n) => n as i64,
            SeekFrom::End(d) => s.bytes.len() as i64 + d,
            SeekFrom::Current(d) => s.pos as i64 + d,
        };
        if np < 0 {
            return Err(io::Error::new(io::ErrorKind::InvalidInput, "negative seek"));
        }
        s.pos = np as u64;
        Ok(s.pos)
    }
}
