//! ndjson trace files: one meta line, then events.
use serde_json::{json, Value};
use std::fs::File;
use std::io::{BufWriter, Write};
use std::path::{Path, PathBuf};

/// what the driver is about to hand to the library (set before, cleared after the call): if the call never returns
/// the watchdog of bin/driver.rs reports this as a hang instead of the whole check timing out
pub static PENDING: std::sync::Mutex<Option<(std::time::Instant, String)>> = std::sync::Mutex::new(None);
pub fn pending(v: &Value) {
    *PENDING.lock().unwrap() = Some((std::time::Instant::now(), v.to_string()));
}
pub fn pending_done() {
    *PENDING.lock().unwrap() = None;
}

pub struct Trace {
    w: BufWriter<File>,
    pub path: PathBuf,
    pub lines: usize,
    pub runs: usize,
}

impl Trace {
    pub fn create(path: &Path, mut meta: Value) -> Trace {
        let f = File::create(path).unwrap_or_else(|e| panic!("cannot create {:?}: {}", path, e));
        meta["ev"] = json!("meta");
        let mut t = Trace { w: BufWriter::new(f), path: path.to_path_buf(), lines: 0, runs: 0 };
        t.emit(meta);
        t
    }
    pub fn emit(&mut self, v: Value) {
        serde_json::to_writer(&mut self.w, &v).unwrap();
        self.w.write_all(b"\n").unwrap();
        self.lines += 1;
    }
    /// start of an independent run (the unit that is cut out and reported on rejection)
    pub fn run(&mut self, mut v: Value) {
        self.runs += 1;
        v["run"] = json!(self.runs);
        self.emit(v);
    }
    pub fn finish(mut self) -> (PathBuf, usize, usize) {
        self.w.flush().unwrap();
        (self.path, self.lines, self.runs)
    }
}

/// key=value command-line arguments
pub struct Args(pub std::collections::HashMap<String, String>);

impl Args {
    pub fn parse(args: &[String]) -> Args {
        let mut m = std::collections::HashMap::new();
        for a in args {
            if let Some((k, v)) = a.split_once('=') {
                m.insert(k.to_string(), v.to_string());
            } else {
                m.insert(a.to_string(), "1".to_string());
            }
        }
        Args(m)
    }
    pub fn get(&self, k: &str, d: &str) -> String {
        self.0.get(k).cloned().unwrap_or_else(|| d.to_string())
    }
    pub fn num(&self, k: &str, d: u64) -> u64 {
        self.0.get(k).map(|s| s.parse().unwrap()).unwrap_or(d)
    }
    pub fn has(&self, k: &str) -> bool {
        self.0.contains_key(k)
    }
}

/// run f, turning a panic into Err(message)
pub fn guarded<T>(f: impl FnOnce() -> T) -> Result<T, String> {
    match std::panic::catch_unwind(std::panic::AssertUnwindSafe(f)) {
        Ok(v) => Ok(v),
        Err(e) => {
            let msg = if let Some(s) = e.downcast_ref::<&str>() {
                s.to_string()
            } else if let Some(s) = e.downcast_ref::<String>() {
                s.clone()
            } else {
                "panic".to_string()
            };
            Err(msg)
        }
    }
}

pub fn quiet_panics() {
    std::panic::set_hook(Box::new(|_| {}));
}
