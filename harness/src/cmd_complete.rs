//! C08 (and the row side of C10): shapes and attribute rows stay paired through the
//! complete Writer and Reader.  Histories over
//!   o  a good pair           x  a pair whose shape has another type
//!   m  a row missing a field w  a row with a value of the wrong field type
//! on in-memory destinations and on files created by path.
use crate::cmd_reader::{distinct_shapes, idx_record, row_index, table_builder};
use crate::cmd_writer::other_type;
use crate::io::*;
use crate::rng::Rng;
use crate::shapes::*;
use crate::trace::*;
use crate::values::*;
use crate::{jbytes, with_inner};
use serde_json::{json, Value};
use shapefile::dbase;
use shapefile::*;
use std::io::Cursor;
use std::path::{Path, PathBuf};

fn bad_row(kind: char, i: usize) -> dbase::Record {
    let mut r = dbase::Record::default();
    match kind {
        'm' => {
            // the NAME field is missing
            r.insert("IDX".to_string(), dbase::FieldValue::Numeric(Some(i as f64)));
        }
        _ => {
            // IDX is declared numeric; a character value is offered
            r.insert("IDX".to_string(), dbase::FieldValue::Character(Some("oops".to_string())));
            r.insert("NAME".to_string(), dbase::FieldValue::Character(Some(format!("row{}", i))));
        }
    }
    r
}

fn res_str(r: Result<Result<(), Error>, String>) -> String {
    match r {
        Ok(Ok(())) => "ok".to_string(),
        Ok(Err(e)) => err_json(&e)["err"].as_str().unwrap().to_string(),
        Err(_) => "panic".to_string(),
    }
}

fn key(x: &AShape) -> Vec<Vec<[i32; 3]>> {
    x.parts.iter().map(|p| p.iter().map(|q| [q[0], q[1], q[2]]).collect()).collect()
}

fn pairs_json(c: &Conc, shapes: &[AShape], v: &[(Shape, dbase::Record)]) -> Value {
    json!(v.iter()
        .map(|(s, r)| {
            let a = abstract_shape(c, s);
            let si = shapes.iter().position(|o| o.t == a.t && key(o) == key(&a)).map(|p| p as i64 + 1).unwrap_or(-9);
            json!([si, row_index(r)])
        })
        .collect::<Vec<_>>())
}

/// typed complete reads: Reader::read_as::<S, Record>() on cursors, or shapefile::read_as by path
fn readback_typed(c: &Conc, shapes: &[AShape], t: i32, shp: &[u8], shx: &[u8], dbf: &[u8], path: Option<&Path>) -> Value {
    if t == 0 {
        return json!({"err": "", "pairs": [], "skipped": true});
    }
    let r = guarded(|| {
        crate::for_type!(t, S, {
            let v: Vec<(S, dbase::Record)> = match path {
                Some(p) => shapefile::read_as::<_, S, dbase::Record>(p)?,
                None => {
                    let sr = ShapeReader::with_shx(Cursor::new(shp.to_vec()), Cursor::new(shx.to_vec()))?;
                    let dr = dbase::Reader::new(Cursor::new(dbf.to_vec())).map_err(Error::DbaseError)?;
                    Reader::new(sr, dr).read_as::<S, dbase::Record>()?
                }
            };
            Ok::<Vec<(Shape, dbase::Record)>, Error>(v.into_iter().map(|(s, r)| (Shape::from(s), r)).collect())
        })
    });
    match r {
        Ok(Ok(all)) => json!({"err": "", "pairs": pairs_json(c, shapes, &all), "skipped": false}),
        Ok(Err(e)) => json!({"err": err_json(&e)["err"], "pairs": [], "skipped": false}),
        Err(_) => json!({"err": "panic", "pairs": [], "skipped": false}),
    }
}

fn readback_cursor(c: &Conc, shapes: &[AShape], shp: &[u8], shx: &[u8], dbf: &[u8]) -> Value {
    let r = guarded(|| {
        let sr = ShapeReader::with_shx(Cursor::new(shp.to_vec()), Cursor::new(shx.to_vec()))?;
        let dr = dbase::Reader::new(Cursor::new(dbf.to_vec())).map_err(Error::DbaseError)?;
        let mut rd = Reader::new(sr, dr);
        let all = rd.read()?;
        // and by iteration on a second reader
        let sr2 = ShapeReader::new(Cursor::new(shp.to_vec()))?;
        let dr2 = dbase::Reader::new(Cursor::new(dbf.to_vec())).map_err(Error::DbaseError)?;
        let mut rd2 = Reader::new(sr2, dr2);
        let mut it = vec![];
        for p in rd2.iter_shapes_and_records() {
            it.push(p?);
        }
        Ok::<_, Error>((all, it))
    });
    match r {
        Ok(Ok((all, it))) => json!({"err": "", "pairs": pairs_json(c, shapes, &all), "iter": pairs_json(c, shapes, &it)}),
        Ok(Err(e)) => json!({"err": err_json(&e)["err"], "pairs": [], "iter": []}),
        Err(_) => json!({"err": "panic", "pairs": [], "iter": []}),
    }
}

fn readback_path(c: &Conc, shapes: &[AShape], path: &Path) -> Value {
    let r = guarded(|| {
        let all = shapefile::read(path)?;
        let mut rd = Reader::from_path(path)?;
        let mut it = vec![];
        for p in rd.iter_shapes_and_records() {
            it.push(p?);
        }
        Ok::<_, Error>((all, it))
    });
    match r {
        Ok(Ok((all, it))) => json!({"err": "", "pairs": pairs_json(c, shapes, &all), "iter": pairs_json(c, shapes, &it)}),
        Ok(Err(e)) => json!({"err": err_json(&e)["err"], "pairs": [], "iter": []}),
        Err(_) => json!({"err": "panic", "pairs": [], "iter": []}),
    }
}

#[allow(clippy::too_many_arguments)]
pub fn run_history(tr: &mut Trace, c: &Conc, r: &mut Rng, t: i32, tx: i32, hist: &str, by_path: bool, tmp: &Path, id: usize, prop: &str) {
    let n = hist.len();
    // one distinct shape per call (so that a shape identifies the call that wrote it)
    let mut good = distinct_shapes(r, t, n.max(1), false);
    // every third history: the shapes end in an EMPTY ring / patch (legal for the constructors; the record still
    // announces it, so the records that follow must start where the index says)
    if id % 3 == 0 && matches!(family(t), "polygon" | "multipatch") {
        for g in good.iter_mut() {
            g.parts.push(vec![]);
            g.kinds.push(if t == 31 { (id % 6) as i32 } else { 1 });
        }
    }
    let other = distinct_shapes(r, tx, if hist.contains('x') { n.max(1) } else { 1 }, false);
    let built_good: Vec<Shape> = good.iter().map(|a| build(c, a)).collect();
    let built_other: Vec<Shape> = other.iter().map(|a| build(c, a)).collect();
    // the shape offered at call k (1-based position = call number)
    let shapes: Vec<AShape> = hist
        .chars()
        .enumerate()
        .map(|(i, ch)| abstract_shape(c, if ch == 'x' { &built_other[i] } else { &built_good[i] }))
        .collect();
    tr.run(json!({"ev": "reset", "kind": "complete", "t": t, "tx": tx, "hist": hist, "byPath": by_path, "prop": prop}));
    let (shp, shx, dbf) = (LogDest::new(), LogDest::new(), LogDest::new());
    let path = crate::cmd_codec::path_variant(tmp, "w", id);
    enum W {
        Mem(Writer<LogDest>),
        File(Writer<std::io::BufWriter<std::fs::File>>),
        Gone,
    }
    let mut w = if by_path {
        crate::cmd_codec::prepopulate(&path);
        let _ = std::fs::write(path.with_extension("dbf"), vec![7u8; 30_000]);
        match Writer::from_path(&path, table_builder()) {
            Ok(w) => W::File(w),
            Err(e) => {
                tr.emit(json!({"ev": "openfail", "err": err_json(&e)}));
                return;
            }
        }
    } else {
        W::Mem(Writer::new(ShapeWriter::with_shx(shp.clone(), shx.clone()), table_builder().build_with_dest(dbf.clone())))
    };
    // x...x o...o on an even run: the o's go through the consuming bulk call (refused at its first
    // pair when an x came first: the file's type is then the other one)
    let nx = hist.chars().take_while(|ch| *ch == 'x').count();
    let bulk_after_x = nx > 0 && nx < hist.len() && hist.chars().skip(nx).all(|ch| ch == 'o') && id % 2 == 0;
    if bulk_after_x {
        for i in 0..nx {
            let res = res_str(guarded(|| match &mut w {
                W::Mem(w) => with_inner!(&built_other[i], s => w.write_shape_and_record(s, &idx_record(i + 1)), Ok(())),
                W::File(w) => with_inner!(&built_other[i], s => w.write_shape_and_record(s, &idx_record(i + 1)), Ok(())),
                W::Gone => Ok(()),
            }));
            tr.emit(json!({"ev": "pair", "k": i + 1, "kind": "x", "t": tx, "res": res}));
        }
        let rows: Vec<dbase::Record> = (nx + 1..=n).map(idx_record).collect();
        let res = res_str(guarded(|| {
            crate::for_type!(t, S, {
                let shapes_s: Vec<S> = built_good[nx..].iter().map(|s| S::try_from(clone_shape(s)).ok().unwrap()).collect();
                let pairs = shapes_s.iter().zip(rows.iter());
                match std::mem::replace(&mut w, W::Gone) {
                    W::Mem(w) => w.write_shapes_and_records(pairs),
                    W::File(w) => w.write_shapes_and_records(pairs),
                    W::Gone => Ok(()),
                }
            })
        }));
        // the bulk call stops at its first refused pair: that pair is the only one attempted
        tr.emit(json!({"ev": "pair", "k": nx + 1, "kind": "o", "t": t, "res": res, "consuming": true}));
    }
    let consuming = !hist.is_empty() && hist.chars().all(|ch| ch == 'o') && id % 2 == 0;
    if consuming {
        // Writer::write_shapes_and_records consumes the writer: all pairs in one call
        let rows: Vec<dbase::Record> = (1..=n).map(idx_record).collect();
        let res = res_str(guarded(|| {
            crate::for_type!(t, S, {
                let shapes_s: Vec<S> = built_good.iter().map(|s| S::try_from(clone_shape(s)).ok().unwrap()).collect();
                let pairs = shapes_s.iter().zip(rows.iter());
                match std::mem::replace(&mut w, W::Gone) {
                    W::Mem(w) => w.write_shapes_and_records(pairs),
                    W::File(w) => w.write_shapes_and_records(pairs),
                    W::Gone => Ok(()),
                }
            })
        }));
        for k in 1..=n {
            tr.emit(json!({"ev": "pair", "k": k, "kind": "o", "t": t, "res": res, "consuming": true}));
        }
    }
    for (i, ch) in hist.chars().enumerate() {
        if consuming || bulk_after_x {
            break;
        }
        let k = i + 1;
        let shape = if ch == 'x' { &built_other[i] } else { &built_good[i] };
        let row = match ch {
            'o' | 'x' => idx_record(k),
            _ => bad_row(ch, k),
        };
        let res = res_str(guarded(|| match &mut w {
            W::Mem(w) => with_inner!(shape, s => w.write_shape_and_record(s, &row), Ok(())),
            W::File(w) => with_inner!(shape, s => w.write_shape_and_record(s, &row), Ok(())),
            W::Gone => Ok(()),
        }));
        tr.emit(json!({"ev": "pair", "k": k, "kind": ch.to_string(), "t": if ch == 'x' { tx } else { t }, "res": res}));
    }
    drop(w);
    let (b1, b2, b3) = if by_path {
        (
            std::fs::read(&path).unwrap_or_default(),
            std::fs::read(path.with_extension("shx")).unwrap_or_default(),
            std::fs::read(path.with_extension("dbf")).unwrap_or_default(),
        )
    } else {
        (shp.bytes(), shx.bytes(), dbf.bytes())
    };
    let rb = if by_path { readback_path(c, &shapes, &path) } else { readback_cursor(c, &shapes, &b1, &b2, &b3) };
    // the type the file ended up with (the first accepted shape's)
    let ft = if b1.len() >= 36 { i32::from_le_bytes([b1[32], b1[33], b1[34], b1[35]]) } else { 0 };
    let typed = readback_typed(c, &shapes, ft, &b1, &b2, &b3, if by_path { Some(&path) } else { None });
    tr.emit(json!({"ev": "cdrop", "shp": jbytes(&b1), "shx": jbytes(&b2), "dbf": jbytes(&b3), "readback": rb, "typed": typed}));
    if by_path {
        // which of the three files the path constructors require / pick up: every subset present
        // (the .shp is the path as given: its extension may be upper case)
        let ext_path = |e: &str| if e == "shp" { path.clone() } else { path.with_extension(e) };
        let keep: Vec<(&str, Vec<u8>)> = ["shp", "shx", "dbf"].iter().map(|e| (*e, std::fs::read(ext_path(e)).unwrap_or_default())).collect();
        for mask in 0..8u32 {
            let mut present = vec![];
            for (bit, (ext, bytes)) in keep.iter().enumerate() {
                let p = ext_path(ext);
                if mask & (1 << bit) != 0 {
                    std::fs::write(&p, bytes).unwrap();
                    present.push(*ext);
                } else {
                    let _ = std::fs::remove_file(&p);
                }
            }
            let r1 = guarded(|| Reader::from_path(&path).map(|r| r.shape_count().map(|n| n as i64).unwrap_or_else(|e| if matches!(e, Error::MissingIndexFile) { -2 } else { -3 })));
            let (res1, cnt1) = match r1 { Ok(Ok(n)) => ("ok".to_string(), n), Ok(Err(e)) => (err_json(&e)["err"].as_str().unwrap().to_string(), -9), Err(_) => ("panic".to_string(), -9) };
            tr.emit(json!({"ev": "openpath", "which": "Reader", "present": present, "res": res1, "count": cnt1}));
            let r2 = guarded(|| ShapeReader::from_path(&path).map(|r| r.shape_count().map(|n| n as i64).unwrap_or_else(|e| if matches!(e, Error::MissingIndexFile) { -2 } else { -3 })));
            let (res2, cnt2) = match r2 { Ok(Ok(n)) => ("ok".to_string(), n), Ok(Err(e)) => (err_json(&e)["err"].as_str().unwrap().to_string(), -9), Err(_) => ("panic".to_string(), -9) };
            tr.emit(json!({"ev": "openpath", "which": "ShapeReader", "present": present, "res": res2, "count": cnt2}));
        }
        for ext in ["shp", "shx", "dbf"] {
            let _ = std::fs::remove_file(path.with_extension(ext));
        }
    }
}

/// what an application's own row type wants: the index must be there
struct IdxRow(i64);
impl dbase::ReadableRecord for IdxRow {
    fn read_using<S, M>(it: &mut dbase::FieldIterator<S, M>) -> Result<Self, dbase::FieldIOError>
    where
        S: std::io::Read + std::io::Seek,
        M: std::io::Read + std::io::Seek,
    {
        // fails for a row whose IDX was left empty
        let idx = it.read_next_field_as::<f64>()?.value;
        let _name = it.read_next_field_as::<String>();
        Ok(IdxRow(idx as i64))
    }
}

/// n pairs of which row `hole` cannot be converted to the caller's row type: the iteration reports that pair as
/// an error and goes on; the pairs after it are still shape i with row i
fn rowerr_event(tr: &mut Trace, c: &Conc, r: &mut Rng, t: i32) {
    let n = 3 + r.below(4);
    let hole = 1 + r.below(n - 1);      // 1-based, never the first (so that the table has a typed first row)
    let shapes = distinct_shapes(r, t, n, false);
    let built: Vec<Shape> = shapes.iter().map(|a| build(c, a)).collect();
    // (the constructors close and orient rings: a shape is recognised by what was BUILT, not by what went in)
    let shapes: Vec<AShape> = built.iter().map(|s| abstract_shape(c, s)).collect();
    let (shp, shx, dbf) = (LogDest::new(), LogDest::new(), LogDest::new());
    let res = guarded(|| {
        {
            let mut w = Writer::new(ShapeWriter::with_shx(shp.clone(), shx.clone()), table_builder().build_with_dest(dbf.clone()));
            for (i, s) in built.iter().enumerate() {
                let mut row = idx_record(i + 1);
                if i + 1 == hole {
                    row.insert("IDX".to_string(), dbase::FieldValue::Numeric(None));
                }
                with_inner!(s, v => w.write_shape_and_record(v, &row).unwrap(), ());
            }
        }
        let sr = ShapeReader::with_shx(Cursor::new(shp.bytes()), Cursor::new(shx.bytes())).unwrap();
        let mut rd = Reader::new(sr, dbase::Reader::new(Cursor::new(dbf.bytes())).unwrap());
        let mut items: Vec<Value> = vec![];
        for x in rd.iter_shapes_and_records_as::<Shape, IdxRow>() {
            match x {
                Ok((s, row)) => {
                    let a = abstract_shape(c, &s);
                    let si = shapes.iter().position(|o| o.t == a.t && key(o) == key(&a)).map(|p| p as i64 + 1).unwrap_or(-9);
                    items.push(json!([si, row.0]));
                }
                Err(_) => items.push(json!([-1, -1])),
            }
            if items.len() > n + 2 {
                break;
            }
        }
        items
    });
    match res {
        Ok(items) => tr.run(json!({"ev": "rowerr", "t": t, "n": n, "hole": hole, "items": items, "panic": ""})),
        Err(p) => tr.run(json!({"ev": "rowerr", "t": t, "n": n, "hole": hole, "items": [], "panic": p})),
    }
}

pub fn run(a: &Args) {
    let prop = a.get("prop", "C08");
    let out = PathBuf::from(a.get("out", "work/complete"));
    std::fs::create_dir_all(&out).unwrap();
    let seed = a.num("seed", 1);
    let chunks = a.num("chunks", 8) as usize;
    let maxlen = a.num("maxlen", 4) as usize;
    let ntypes = a.num("types", 13) as usize;
    let nrandom = a.num("random", 10) as usize;
    let tmp = crate::cmd_codec::TmpDir::new(&out, "complete");
    let mut r = Rng::new(seed.wrapping_mul(271828));
    let mut traces: Vec<Trace> = vec![];
    let mut concs: Vec<Conc> = vec![];
    for ch in 0..chunks {
        let c = Conc::new(&mut r, true);
        let mut meta = c.meta();
        meta["prop"] = json!(prop);
        meta["seed"] = json!(seed);
        meta["family"] = json!("complete");
        traces.push(Trace::create(&out.join(format!("trace-{:03}.ndjson", ch)), meta));
        concs.push(c);
    }
    let mut k = 0usize;
    // (C10 only needs good pairs and shapes of another type; refused rows belong to C08)
    let alpha: Vec<char> = a.get("alpha", "oxmw").chars().collect();
    for ti in 0..ntypes {
        let t = ALL_TYPES[(ti + seed as usize) % 13];
        let tx = other_type(t, ti + 3);
        // exhaustive histories for the first types, shorter for the rest
        let n = if ti < 2 { maxlen } else { maxlen.saturating_sub(2).max(1) };
        let mut hists = crate::cmd_writer::all_hists(&alpha, n);
        for _ in 0..nrandom {
            let len = 5 + r.below(30);
            let pool: Vec<char> = ['o', 'o', 'o', 'x', 'm', 'w'].iter().copied().filter(|ch| alpha.contains(ch)).collect();
            hists.push((0..len).map(|_| *r.pick(&pool)).collect());
        }
        for h in hists {
            let i = k % chunks;
            k += 1;
            let by_path = k % 5 == 0;
            run_history(&mut traces[i], &concs[i], &mut r, t, tx, &h, by_path, &tmp.0, k, &prop);
        }
    }
    // rows the caller's own row type cannot take
    if prop == "C08" || prop == "all" {
        for ti in 0..6usize {
            let t = ALL_TYPES[(ti * 2 + seed as usize) % 13];
            k += 1;
            rowerr_event(&mut traces[k % chunks], &concs[k % chunks], &mut r, t);
        }
    }
    // more pairs than any pre-allocation cap (1 024): every pair must still come back, by path and in memory
    let nlong = a.num("long", 1100) as usize;
    if nlong > 0 && alpha.contains(&'o') {
        for by_path in [true, false] {
            k += 1;
            let h: String = std::iter::repeat('o').take(nlong).collect();
            run_history(&mut traces[k % chunks], &concs[k % chunks], &mut r, 11, 1, &h, by_path, &tmp.0, k, &prop);
        }
    }
    let mut files = vec![];
    let mut lines = 0;
    for t in traces {
        let (p, l, _) = t.finish();
        lines += l;
        files.push(p.to_string_lossy().to_string());
    }
    println!("{}", json!({"cases": k, "distinct": k, "lines": lines, "files": files}));
}
