use shpverif::trace::{quiet_panics, Args};

#[global_allocator]
static GLOBAL: shpverif::alloc::Counting = shpverif::alloc::Counting;

fn main() {
    let argv: Vec<String> = std::env::args().collect();
    if argv.len() < 2 {
        eprintln!("usage: driver <command> key=value ...");
        std::process::exit(2);
    }
    let a = Args::parse(&argv[2..]);
    if !a.has("loud") {
        quiet_panics();
    }
    // watchdog: a library call that has been pending for too long is a hang (exit 3 with the pending input on disk)
    {
        let out = a.get("out", "work");
        let limit = std::env::var("VERIF_HANG_SECS").ok().and_then(|x| x.parse::<u64>().ok()).unwrap_or(240);
        std::thread::spawn(move || loop {
            std::thread::sleep(std::time::Duration::from_secs(3));
            let p = shpverif::trace::PENDING.lock().unwrap().clone();
            if let Some((since, what)) = p {
                if since.elapsed().as_secs() >= limit {
                    let _ = std::fs::create_dir_all(&out);
                    let _ = std::fs::write(std::path::Path::new(&out).join("hang.json"),
                                           format!("{{\"what\": \"hang: a library call did not return within {} s\", \"pending\": {}}}", limit, what));
                    std::process::exit(3);
                }
            }
        });
    }
    match argv[1].as_str() {
        "codec" => shpverif::cmd_codec::run(&a),
        "writer" => shpverif::cmd_writer::run(&a),
        "reader" => shpverif::cmd_reader::run(&a),
        "damage" => shpverif::cmd_damage::run(&a),
        "crash" => shpverif::cmd_crash::run(&a),
        "faults" => shpverif::cmd_faults::run(&a),
        "foreign" => shpverif::cmd_foreign::run(&a),
        "types" => shpverif::cmd_types::run(&a),
        "rings" => shpverif::cmd_rings::run(&a),
        "complete" => shpverif::cmd_complete::run(&a),
        "geo" => shpverif::cmd_geo::run(&a),
        "surface" => shpverif::cmd_surface::run(&a),
        "arbitrary" => shpverif::cmd_arbitrary::run(&a),
        "arbitrary-child" => shpverif::cmd_arbitrary::child(&a),
        c => {
            eprintln!("unknown command {}", c);
            std::process::exit(2);
        }
    }
}
