//! Counting global allocator (C17): largest single request and peak live bytes between
//! two resets.  A request is recorded BEFORE it is served.  Requests above HARD_CAP are
//! refused (null), which makes the process abort: the parent attributes the abort to the
//! case that was running (the case id is logged before the case starts).
use std::alloc::{GlobalAlloc, Layout, System};
use std::sync::atomic::{AtomicBool, AtomicUsize, Ordering};

pub struct Counting;

static LIVE: AtomicUsize = AtomicUsize::new(0);
static PEAK: AtomicUsize = AtomicUsize::new(0);
static LARGEST: AtomicUsize = AtomicUsize::new(0);
static REQUESTED: AtomicUsize = AtomicUsize::new(0);
static ENABLED: AtomicBool = AtomicBool::new(false);
pub const HARD_CAP: usize = 3 << 30;

unsafe impl GlobalAlloc for Counting {
    unsafe fn alloc(&self, l: Layout) -> *mut u8 {
        if ENABLED.load(Ordering::Relaxed) {
            let sz = l.size();
            LARGEST.fetch_max(sz, Ordering::Relaxed);
            REQUESTED.fetch_add(sz, Ordering::Relaxed);
            let live = LIVE.fetch_add(sz, Ordering::Relaxed) + sz;
            PEAK.fetch_max(live, Ordering::Relaxed);
            if sz > HARD_CAP {
                return std::ptr::null_mut();
            }
        }
        System.alloc(l)
    }
    unsafe fn dealloc(&self, p: *mut u8, l: Layout) {
        if ENABLED.load(Ordering::Relaxed) {
            let _ = LIVE.fetch_update(Ordering::Relaxed, Ordering::Relaxed, |v| Some(v.saturating_sub(l.size())));
        }
        System.dealloc(p, l)
    }
    unsafe fn realloc(&self, p: *mut u8, l: Layout, new_size: usize) -> *mut u8 {
        if ENABLED.load(Ordering::Relaxed) {
            LARGEST.fetch_max(new_size, Ordering::Relaxed);
            if new_size > l.size() {
                let d = new_size - l.size();
                REQUESTED.fetch_add(d, Ordering::Relaxed);
                let live = LIVE.fetch_add(d, Ordering::Relaxed) + d;
                PEAK.fetch_max(live, Ordering::Relaxed);
            } else {
                let d = l.size() - new_size;
                let _ = LIVE.fetch_update(Ordering::Relaxed, Ordering::Relaxed, |v| Some(v.saturating_sub(d)));
            }
            if new_size > HARD_CAP {
                return std::ptr::null_mut();
            }
        }
        System.realloc(p, l, new_size)
    }
}

/// start measuring: live bytes count from zero
pub fn start() {
    LIVE.store(0, Ordering::Relaxed);
    PEAK.store(0, Ordering::Relaxed);
    LARGEST.store(0, Ordering::Relaxed);
    REQUESTED.store(0, Ordering::Relaxed);
    ENABLED.store(true, Ordering::Relaxed);
}

/// stop measuring; (peak live bytes, largest single request)
pub fn stop() -> (usize, usize) {
    ENABLED.store(false, Ordering::Relaxed);
    (PEAK.load(Ordering::Relaxed), LARGEST.load(Ordering::Relaxed))
}
