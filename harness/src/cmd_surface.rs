//! Beyond the listed properties (Surface.tla): what values print as, what the errors say,
//! box range accessors, the conversions between the library's own types, ring accessors,
//! table-info plumbing of the complete reader / writer.
use crate::cmd_codec::{path_variant, TmpDir};
use crate::cmd_reader::{distinct_shapes, idx_record, row_index, table_builder};
use crate::gen::*;
use crate::rng::Rng;
use crate::shapes::*;
use crate::trace::*;
use crate::values::*;
use crate::{for_type, jbytes, with_inner};
use serde_json::{json, Value};
use shapefile::record::PolygonRing;
use shapefile::*;
use std::io::Cursor;
use std::path::PathBuf;

fn display_event(c: &Conc, s: &Shape) -> Value {
    let a = abstract_shape(c, s);
    let (xs, ys, zs, ms) = match s {
        Shape::Point(p) => (format!("{}", p.x), format!("{}", p.y), String::new(), String::new()),
        Shape::PointM(p) => (format!("{}", p.x), format!("{}", p.y), String::new(), format!("{}", p.m)),
        Shape::PointZ(p) => (format!("{}", p.x), format!("{}", p.y), format!("{}", p.z), format!("{}", p.m)),
        _ => Default::default(),
    };
    let concrete = with_inner!(s, v => format!("{}", v), "NullShape".to_string());
    json!({"ev": "display", "shape": a.to_json(), "text": format!("{}", s), "concrete": concrete, "xs": xs, "ys": ys, "zs": zs, "ms": ms,
           "typeName": format!("{}", s.shapetype())})
}

fn ranges_event(c: &Conc, s: &Shape) -> Option<Value> {
    let a = abstract_shape(c, s);
    let x = |r: [f64; 2]| vec![c.ax(r[0]), c.ax(r[1])];
    let z = |r: [f64; 2]| vec![c.az(r[0]), c.az(r[1])];
    let e: Vec<i32> = vec![];
    let (rx, ry, rz, rm) = match s {
        Shape::Multipoint(v) => (x(v.bbox().x_range()), x(v.bbox().y_range()), e.clone(), e.clone()),
        Shape::MultipointM(v) => (x(v.bbox().x_range()), x(v.bbox().y_range()), e.clone(), z(v.bbox().m_range())),
        Shape::MultipointZ(v) => (x(v.bbox().x_range()), x(v.bbox().y_range()), z(v.bbox().z_range()), z(v.bbox().m_range())),
        Shape::Polyline(v) => (x(v.bbox().x_range()), x(v.bbox().y_range()), e.clone(), e.clone()),
        Shape::PolylineM(v) => (x(v.bbox().x_range()), x(v.bbox().y_range()), e.clone(), z(v.bbox().m_range())),
        Shape::PolylineZ(v) => (x(v.bbox().x_range()), x(v.bbox().y_range()), z(v.bbox().z_range()), z(v.bbox().m_range())),
        Shape::Polygon(v) => (x(v.bbox().x_range()), x(v.bbox().y_range()), e.clone(), e.clone()),
        Shape::PolygonM(v) => (x(v.bbox().x_range()), x(v.bbox().y_range()), e.clone(), z(v.bbox().m_range())),
        Shape::PolygonZ(v) => (x(v.bbox().x_range()), x(v.bbox().y_range()), z(v.bbox().z_range()), z(v.bbox().m_range())),
        Shape::Multipatch(v) => (x(v.bbox().x_range()), x(v.bbox().y_range()), z(v.bbox().z_range()), z(v.bbox().m_range())),
        _ => return None,
    };
    Some(json!({"ev": "ranges", "shape": a.to_json(), "x": rx, "y": ry, "z": rz, "m": rm}))
}

fn pts_json(p: &[APoint]) -> Value {
    json!(p.iter().map(|q| q.to_vec()).collect::<Vec<_>>())
}

/// Vec <-> multipoint, Vec -> ring, polyline -> polygon, ring accessors
fn convert_events(tr: &mut Trace, c: &Conc, r: &mut Rng) {
    let g = GenCfg::small();
    // multipoints
    for &t in &[8, 28, 18] {
        let n = 1 + r.below(5);
        let p: Vec<APoint> = (0..n).map(|_| gen_point_nonan(r, t, &g)).collect();
        let a = AShape { t, parts: vec![p.clone()], kinds: vec![], bbox: [0; 8] };
        let built = build(c, &a);
        let (from_vec, back): (Shape, Vec<APoint>) = match &built {
            Shape::Multipoint(m) => {
                let v: Vec<Point> = m.points().to_vec();
                let f = Multipoint::from(v);
                let b: Vec<Point> = Vec::from(f.clone());
                (Shape::Multipoint(f), b.iter().map(|q| abstract_shape(c, &Shape::Point(*q)).parts[0][0]).collect())
            }
            Shape::MultipointM(m) => {
                let v: Vec<PointM> = m.points().to_vec();
                let f = MultipointM::from(v);
                let b: Vec<PointM> = Vec::from(f.clone());
                (Shape::MultipointM(f), b.iter().map(|q| abstract_shape(c, &Shape::PointM(*q)).parts[0][0]).collect())
            }
            Shape::MultipointZ(m) => {
                let v: Vec<PointZ> = m.points().to_vec();
                let f = MultipointZ::from(v);
                let b: Vec<PointZ> = Vec::from(f.clone());
                (Shape::MultipointZ(f), b.iter().map(|q| abstract_shape(c, &Shape::PointZ(*q)).parts[0][0]).collect())
            }
            _ => unreachable!(),
        };
        tr.emit(json!({"ev": "mpvec", "t": t, "points": pts_json(&p), "fromVec": abstract_shape(c, &from_vec).to_json(), "back": pts_json(&back)}));
    }
    // rings from vectors, polygons from polylines (grid coordinates: the order decides the role)
    for &t in &[3, 23, 13] {
        let nparts = 1 + r.below(3);
        let parts: Vec<Vec<APoint>> = (0..nparts)
            .map(|_| {
                let n = 2 + r.below(4);
                (0..n).map(|_| [r.range(-2, 2) as i32, r.range(-2, 2) as i32, if t == 13 { r.range(-2, 2) as i32 } else { 0 }, if t != 3 { r.range(-2, 2) as i32 } else { 0 }]).collect()
            })
            .collect();
        let a = AShape { t, parts: parts.clone(), kinds: vec![], bbox: [0; 8] };
        let line = build(c, &a);
        let (poly, ring_obs): (Shape, Vec<Value>) = match line {
            Shape::Polyline(l) => {
                let obs = l.parts().iter().map(|p| ring_obs(c, PolygonRing::from(p.clone()), |q| abstract_shape(c, &Shape::Point(*q)).parts[0][0])).collect();
                (Shape::Polygon(Polygon::from(l)), obs)
            }
            Shape::PolylineM(l) => {
                let obs = l.parts().iter().map(|p| ring_obs(c, PolygonRing::from(p.clone()), |q| abstract_shape(c, &Shape::PointM(*q)).parts[0][0])).collect();
                (Shape::PolygonM(PolygonM::from(l)), obs)
            }
            Shape::PolylineZ(l) => {
                let obs = l.parts().iter().map(|p| ring_obs(c, PolygonRing::from(p.clone()), |q| abstract_shape(c, &Shape::PointZ(*q)).parts[0][0])).collect();
                (Shape::PolygonZ(PolygonZ::from(l)), obs)
            }
            _ => unreachable!(),
        };
        tr.emit(json!({"ev": "linepoly", "t": t, "line": abstract_shape(c, &build(c, &a)).to_json(), "polygon": abstract_shape(c, &poly).to_json(), "rings": ring_obs}));
    }
}

/// what a PolygonRing built from a vector says about itself
fn ring_obs<P: Copy>(_c: &Conc, ring: PolygonRing<P>, abs: impl Fn(&P) -> APoint) -> Value {
    let role = match &ring { PolygonRing::Outer(_) => 0, PolygonRing::Inner(_) => 1 };
    let len = ring.len();
    let empty = ring.is_empty();
    let pts: Vec<APoint> = ring.points().iter().map(&abs).collect();
    let via_index: Vec<APoint> = (0..len).map(|i| abs(&ring[i])).collect();
    let via_asref: Vec<APoint> = ring.as_ref().iter().map(&abs).collect();
    let inner: Vec<APoint> = ring.into_inner().iter().map(&abs).collect();
    json!({"role": role, "len": len, "empty": empty, "pts": pts_json(&pts), "viaIndex": pts_json(&via_index), "viaAsRef": pts_json(&via_asref), "inner": pts_json(&inner)})
}

fn header_with(code: i32, file_code: i32) -> Vec<u8> {
    let mut b = vec![0u8; 100];
    b[0..4].copy_from_slice(&file_code.to_be_bytes());
    b[24..28].copy_from_slice(&50i32.to_be_bytes());
    b[28..32].copy_from_slice(&1000i32.to_le_bytes());
    b[32..36].copy_from_slice(&code.to_le_bytes());
    b
}

fn errtext(e: &Error) -> Value {
    let j = err_json(e);
    json!({"ev": "errtext", "kind": j["err"], "code": j["code"], "req": j.get("requested").cloned().unwrap_or(json!(0)),
           "act": j.get("actual").cloned().unwrap_or(json!(0)), "text": format!("{}", e)})
}

/// errors produced by the real entry points, and what they print
fn error_events(tr: &mut Trace, c: &Conc, r: &mut Rng, tmp: &TmpDir) {
    for &fc in &[0, -1, 9993, 9995, i32::MIN, i32::MAX, r.next() as i32] {
        if let Err(e) = ShapeReader::new(Cursor::new(header_with(1, fc))) {
            tr.emit(errtext(&e));
        }
    }
    for &code in &[2, -1, 4, 32, 255, i32::MIN, i32::MAX, r.next() as i32 | 0x40] {
        if let Err(e) = ShapeReader::new(Cursor::new(header_with(code, 9994))) {
            tr.emit(errtext(&e));
        }
    }
    // the 13 x 13 typed reads of one-record files (S requested, T actual)
    for &t in ALL_TYPES.iter() {
        let a = gen_shape_with(r, t, &GenCfg::small(), true);
        let s = build(c, &a);
        let mut shp = Cursor::new(Vec::<u8>::new());
        {
            let mut w = ShapeWriter::new(&mut shp);
            with_inner!(&s, v => w.write_shape(v).unwrap(), ());
        }
        let bytes = shp.into_inner();
        for &q in ALL_TYPES.iter() {
            if q == t {
                continue;
            }
            let res: Result<usize, Error> = for_type!(q, S, { ShapeReader::new(Cursor::new(bytes.clone())).and_then(|rd| rd.read_as::<S>()).map(|v| v.len()) });
            if let Err(e) = res {
                tr.emit(errtext(&e));
            }
        }
        // TryFrom<Shape> for a concrete type of another kind
        let q = ALL_TYPES[(ALL_TYPES.iter().position(|x| *x == t).unwrap() + 1 + r.below(12)) % 13];
        let res: Result<(), Error> = for_type!(q, S, { S::try_from(clone_shape(&s)).map(|_| ()) });
        if let Err(e) = res {
            tr.emit(errtext(&e));
        }
        // random access without an index
        if let Ok(mut rd) = ShapeReader::new(Cursor::new(bytes.clone())) {
            if let Some(Err(e)) = rd.read_nth_shape(0) {
                tr.emit(errtext(&e));
            }
        }
    }
    // complete reader on a path without .dbf
    let p = path_variant(&tmp.0, "nodbf", r.below(3));
    {
        let mut w = ShapeWriter::from_path(&p).unwrap();
        w.write_shape(&Point::new(1.0, 2.0)).unwrap();
    }
    if let Err(e) = Reader::from_path(&p) {
        tr.emit(errtext(&e));
    }
    // a record whose declared length does not fit its content
    let mut shp = Cursor::new(Vec::<u8>::new());
    {
        let mut w = ShapeWriter::new(&mut shp);
        w.write_shape(&Point::new(1.0, 2.0)).unwrap();
    }
    let mut b = shp.into_inner();
    b[104..108].copy_from_slice(&9i32.to_be_bytes());
    let l = (b.len() / 2) as i32;
    b[24..28].copy_from_slice(&l.to_be_bytes());
    if let Ok(mut rd) = ShapeReader::new(Cursor::new(b)) {
        if let Some(Err(e)) = rd.iter_shapes().next() {
            tr.emit(errtext(&e));
        }
    }
    // a multipatch with a part type outside 0..5
    let mp = build(c, &AShape { t: 31, parts: vec![vec![[0, 0, 0, 0], [1, 0, 0, 0], [1, 1, 0, 0]]], kinds: vec![2], bbox: [0; 8] });
    let mut shp = Cursor::new(Vec::<u8>::new());
    {
        let mut w = ShapeWriter::new(&mut shp);
        with_inner!(&mp, v => w.write_shape(v).unwrap(), ());
    }
    let mut b = shp.into_inner();
    // content: type(4) box(32) nparts(4) npoints(4) parts(4) -> part types at 100 + 8 + 48
    let code = 6 + r.below(1000) as i32;
    b[156..160].copy_from_slice(&code.to_le_bytes());
    if let Ok(mut rd) = ShapeReader::new(Cursor::new(b)) {
        if let Some(Err(e)) = rd.iter_shapes().next() {
            tr.emit(errtext(&e));
        }
    }
}

/// complete reader / writer plumbing: header(), typed pair iteration, table info carried to a second file
fn tableinfo_events(tr: &mut Trace, c: &Conc, r: &mut Rng, tmp: &TmpDir, k: usize) {
    let t = ALL_TYPES[r.below(13)];
    let n = 1 + r.below(4);
    let shapes = distinct_shapes(r, t, n, false);
    let built: Vec<Shape> = shapes.iter().map(|a| build(c, a)).collect();
    let p1 = path_variant(&tmp.0, "ti", k);
    let p2 = path_variant(&tmp.0, "tj", k + 1);
    let write_all = |w: &mut Writer<std::io::BufWriter<std::fs::File>>| {
        for (i, s) in built.iter().enumerate() {
            with_inner!(s, v => w.write_shape_and_record(v, &idx_record(i + 1)).unwrap(), ());
        }
    };
    let res = guarded(|| {
        {
            let mut w = Writer::from_path(&p1, table_builder()).unwrap();
            write_all(&mut w);
        }
        let mut rd = Reader::from_path(&p1).unwrap();
        let h = *rd.header();
        let plain = *ShapeReader::from_path(&p1).unwrap().header();
        let count = rd.shape_count().unwrap();
        let generic: Vec<(Shape, dbase::Record)> = rd.read().unwrap();
        let mut rd2 = Reader::from_path(&p1).unwrap();
        let typed_rows: Vec<i64> = for_type!(t, S, {
            rd2.iter_shapes_and_records_as::<S, dbase::Record>().map(|x| x.map(|(_, rec)| row_index(&rec)).unwrap_or(-9)).collect::<Vec<i64>>()
        });
        // after a seek the pairs are the remaining ones
        let mut rd3 = Reader::from_path(&p1).unwrap();
        let after_seek: Vec<i64> = if n >= 2 { rd3.seek(1).unwrap(); rd3.iter_shapes_and_records().map(|x| x.map(|(_, rec)| row_index(&rec)).unwrap_or(-9)).collect() } else { vec![] };
        let info = Reader::from_path(&p1).unwrap().into_table_info();
        {
            let mut w = Writer::from_path_with_info(&p2, info).unwrap();
            write_all(&mut w);
        }
        let f = |p: &PathBuf, e: &str| std::fs::read(if e == "shp" { p.clone() } else { p.with_extension(e) }).unwrap_or_default();
        let again: Vec<i64> = shapefile::read(&p2).unwrap().iter().map(|(_, rec)| row_index(rec)).collect();
        json!({"ev": "tableinfo", "t": t, "n": n,
               "headerSame": h.file_length == plain.file_length && h.shape_type as i32 == plain.shape_type as i32 && h.version == plain.version,
               "headerType": h.shape_type as i32, "count": count,
               "genericRows": generic.iter().map(|(_, rec)| row_index(rec)).collect::<Vec<_>>(),
               "genericTypes": generic.iter().map(|(s, _)| variant_code(s)).collect::<Vec<_>>(),
               "typedRows": typed_rows, "afterSeek": after_seek,
               "shpSame": f(&p1, "shp") == f(&p2, "shp"), "shxSame": f(&p1, "shx") == f(&p2, "shx"),
               "dbf1": jbytes(&f(&p1, "dbf")), "dbf2": jbytes(&f(&p2, "dbf")), "againRows": again, "panic": ""})
    });
    for p in [&p1, &p2] {
        for e in ["shp", "shx", "dbf"] {
            let _ = std::fs::remove_file(if e == "shp" { p.clone() } else { p.with_extension(e) });
        }
    }
    match res {
        Ok(v) => tr.emit(v),
        Err(p) => tr.emit(json!({"ev": "tableinfo", "t": t, "n": n, "panic": p})),
    }
}

pub fn run(a: &Args) {
    let out = PathBuf::from(a.get("out", "work/surface"));
    std::fs::create_dir_all(&out).unwrap();
    let seed = a.num("seed", 1);
    let chunks = a.num("chunks", 4) as usize;
    let cases = a.num("cases", 40) as usize;
    let mut r = Rng::new(seed.wrapping_mul(2654435761));
    let tmp = TmpDir::new(&out, "surface");
    let mut files = vec![];
    let mut lines = 0;
    let mut k = 0usize;
    for ch in 0..chunks {
        let c = Conc::new(&mut r, true);
        let mut meta = c.meta();
        meta["prop"] = json!("beyond");
        meta["seed"] = json!(seed);
        meta["family"] = json!("surface");
        let mut tr = Trace::create(&out.join(format!("trace-{:03}.ndjson", ch)), meta);
        tr.run(json!({"ev": "reset", "kind": "surface"}));
        tr.emit(display_event(&c, &Shape::NullShape));
        for i in 0..cases {
            let t = ALL_TYPES[(i + ch) % 13];
            let g = if i % 5 == 0 { GenCfg::medium() } else { GenCfg::small() };
            let s = build(&c, &gen_shape(&mut r, t, &g));
            tr.emit(display_event(&c, &s));
            if let Some(e) = ranges_event(&c, &s) {
                tr.emit(e);
            }
            k += 1;
        }
        for _ in 0..cases / 4 + 1 {
            convert_events(&mut tr, &c, &mut r);
            k += 1;
        }
        tr.run(json!({"ev": "reset", "kind": "errors"}));
        error_events(&mut tr, &c, &mut r, &tmp);
        tr.run(json!({"ev": "reset", "kind": "tableinfo"}));
        for _ in 0..cases / 8 + 1 {
            tableinfo_events(&mut tr, &c, &mut r, &tmp, k);
            k += 1;
        }
        let (p, l, _) = tr.finish();
        lines += l;
        files.push(p.to_string_lossy().to_string());
    }
    println!("{}", json!({"cases": k, "distinct": k, "lines": lines, "files": files}));
}
