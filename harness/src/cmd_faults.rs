//! Destination failures (C12): for every call index k on each destination the k-th
//! write/seek/flush fails (one-shot, after a partial write, or persistently); every
//! API call's result is logged together with whether the fault fired during it; after
//! a failed finalize the destination is healed, finalize is retried, the writer dropped.
//! Short writes: every chunk size 1..9 and random schedules, as ordinary writer runs.
use crate::cmd_writer::{model_syms, other_type, plain_run, random_syms, run_history, Syms};
use crate::io::*;
use crate::rng::Rng;
use crate::shapes::*;
use crate::trace::*;
use crate::values::*;
use crate::{jbytes, with_inner};
use serde_json::{json, Value};
use shapefile::*;
use std::path::PathBuf;

fn res_of(r: Result<Result<(), Error>, String>) -> String {
    match r {
        Ok(Ok(())) => "ok".to_string(),
        // (a write that accepted nothing surfaces as ErrorKind::WriteZero from write_all: that IS the injected failure)
        Ok(Err(Error::IoError(io))) if io.kind() == std::io::ErrorKind::WriteZero => "io_injected".to_string(),
        Ok(Err(e)) => err_json(&e)["err"].as_str().unwrap().to_string(),
        Err(_) => "panic".to_string(),
    }
}

/// returns the number of calls each destination saw in an undisturbed run
pub fn dry_run(c: &Conc, hist: &str, syms: &Syms) -> (usize, usize) {
    let shp = LogDest::new();
    let shx = LogDest::new();
    {
        let mut w = ShapeWriter::with_shx(shp.clone(), shx.clone());
        let sa = build(c, &syms.a);
        let sb = build(c, &syms.b);
        for ch in hist.chars() {
            match ch {
                'a' => with_inner!(&sa, v => { let _ = w.write_shape(v); }, ()),
                'b' => with_inner!(&sb, v => { let _ = w.write_shape(v); }, ()),
                'F' => {
                    let _ = w.finalize();
                }
                _ => {}
            }
        }
    }
    (shp.calls(), shx.calls())
}

#[allow(clippy::too_many_arguments)]
pub fn run_fault(tr: &mut Trace, c: &Conc, t: i32, hist: &str, syms: &Syms, dest: &str, k: usize, mode: &str, partial: usize, prop: &str) -> bool {
    run_fault_kind(tr, c, t, hist, syms, dest, k, mode, partial, prop, false)
}

/// `interrupted`: a failing seek or flush reports ErrorKind::Interrupted; returns whether the fault hit a seek or flush
#[allow(clippy::too_many_arguments)]
pub fn run_fault_kind(tr: &mut Trace, c: &Conc, t: i32, hist: &str, syms: &Syms, dest: &str, k: usize, mode: &str, partial: usize, prop: &str, interrupted: bool) -> bool {
    let sa = build(c, &syms.a);
    let sb = build(c, &syms.b);
    let (oa, ob) = (abstract_shape(c, &sa), abstract_shape(c, &sb));
    tr.run(json!({"ev": "reset", "kind": "fault", "t": t, "withShx": true, "hist": hist, "dest": dest, "k": k,
                  "mode": mode, "partial": partial, "prop": prop, "interrupted": interrupted}));
    let shp = LogDest::new();
    let shx = LogDest::new();
    let target = if dest == "shp" { shp.clone() } else { shx.clone() };
    target.set_fault(Some(k), mode == "persistent", partial);
    target.set_interrupted(interrupted);
    target.set_zero_mode(mode == "zero");
    let mut w = Some(ShapeWriter::with_shx(shp.clone(), shx.clone()));
    let mut accepted: Vec<Shape> = vec![];
    let fired_total = |a: &LogDest, b: &LogDest| a.faults_fired() + b.faults_fired();
    for ch in hist.chars() {
        let f0 = fired_total(&shp, &shx);
        match ch {
            'a' | 'b' => {
                let (s, o) = if ch == 'a' { (&sa, &oa) } else { (&sb, &ob) };
                let wr = w.as_mut().unwrap();
                let (n0, x0) = (shp.nops(), shx.nops());
                let r = res_of(guarded(|| with_inner!(s, v => wr.write_shape(v), Ok(()))));
                if r == "ok" {
                    accepted.push(clone_shape(s));
                }
                tr.emit(json!({"ev": "fwrite", "shape": o.to_json(), "res": r, "fired": fired_total(&shp, &shx) > f0,
                               "fxShp": effects_json(&shp.ops()[n0..]), "fxShx": effects_json(&shx.ops()[x0..])}));
            }
            'F' => {
                let wr = w.as_mut().unwrap();
                let r = res_of(guarded(|| wr.finalize()));
                tr.emit(json!({"ev": "ffinalize", "res": r, "fired": fired_total(&shp, &shx) > f0,
                               "shp": jbytes(&shp.bytes()), "shx": jbytes(&shx.bytes()),
                               "flushedShp": shp.is_flushed(), "flushedShx": shx.is_flushed()}));
            }
            _ => {}
        }
    }
    if mode != "persistent" {
        // the destination works again: finalize is called again, then the writer is dropped
        shp.heal();
        shx.heal();
        tr.emit(json!({"ev": "heal"}));
        let f0 = fired_total(&shp, &shx);
        let wr = w.as_mut().unwrap();
        let r = res_of(guarded(|| wr.finalize()));
        tr.emit(json!({"ev": "ffinalize", "res": r, "fired": fired_total(&shp, &shx) > f0,
                       "shp": jbytes(&shp.bytes()), "shx": jbytes(&shx.bytes()),
                       "flushedShp": shp.is_flushed(), "flushedShx": shx.is_flushed()}));
    }
    let f0 = fired_total(&shp, &shx);
    let wr = w.take().unwrap();
    let r = guarded(move || drop(wr));
    let (ps, px) = plain_run(&accepted, true);
    tr.emit(json!({"ev": "fdrop", "res": if r.is_ok() { "ok" } else { "panic" }, "fired": fired_total(&shp, &shx) > f0,
                   "shp": jbytes(&shp.bytes()), "shx": jbytes(&shx.bytes()),
                   "flushedShp": shp.is_flushed(), "flushedShx": shx.is_flushed(),
                   "plainShp": jbytes(&ps), "plainShx": jbytes(&px)}));
    target.fault_nonwrite()
}

pub fn run(a: &Args) {
    let prop = a.get("prop", "C12");
    let out = PathBuf::from(a.get("out", "work/faults"));
    std::fs::create_dir_all(&out).unwrap();
    let seed = a.num("seed", 1);
    let chunks = a.num("chunks", 8) as usize;
    let ntypes = a.num("types", 13) as usize;
    let nhists = a.num("hists", 2) as usize;
    let mut r = Rng::new(seed.wrapping_mul(65537));
    let hists = ["abF", "aFbF", "aF", "FabF", "abFaF", "aaFbbF", "F", "bFFaF"];
    let mut traces: Vec<Trace> = vec![];
    let mut concs: Vec<Conc> = vec![];
    for ch in 0..chunks {
        let c = Conc::new(&mut r, true);
        let mut meta = c.meta();
        meta["prop"] = json!(prop);
        meta["seed"] = json!(seed);
        meta["family"] = json!("faults");
        traces.push(Trace::create(&out.join(format!("trace-{:03}.ndjson", ch)), meta));
        concs.push(c);
    }
    let mut cases = 0usize;
    let mut kk = 0usize;
    for ti in 0..ntypes {
        let t = ALL_TYPES[(ti + seed as usize) % 13];
        for hi in 0..nhists {
            let hist = hists[(ti + hi + seed as usize) % hists.len()];
            let i = kk % chunks;
            kk += 1;
            let c = &concs[i];
            let syms = if hi == 0 { model_syms(t, other_type(t, 0)) } else { random_syms(&mut r, t, other_type(t, 0)) };
            let (ns, nx) = dry_run(c, hist, &syms);
            for (dest, n) in [("shp", ns), ("shx", nx)] {
                for k in 0..n + 1 {
                    let nonwrite = run_fault(&mut traces[i], c, t, hist, &syms, dest, k, "oneshot", 0, &prop);
                    cases += 1;
                    if nonwrite {
                        // the same failing seek / flush, reported the way EINTR is
                        run_fault_kind(&mut traces[i], c, t, hist, &syms, dest, k, "oneshot", 0, &prop, true);
                        cases += 1;
                    } else if k < n {
                        // the same failing write, as a destination that is full: it accepts 0 bytes and says so
                        run_fault(&mut traces[i], c, t, hist, &syms, dest, k, "zero", 0, &prop);
                        cases += 1;
                    }
                    if k % 3 == 0 {
                        run_fault(&mut traces[i], c, t, hist, &syms, dest, k, "oneshot", 1 + r.below(3), &prop);
                        run_fault(&mut traces[i], c, t, hist, &syms, dest, k, "persistent", 0, &prop);
                        cases += 2;
                    }
                }
            }
            // short writes: same history as an ordinary writer run over chunking destinations
            let hd = format!("{}D", hist);
            for chunk in 1..=9usize {
                run_history(&mut traces[i], c, t, true, &hd, &syms, &prop, Some(vec![chunk]));
                cases += 1;
            }
            for _ in 0..6 {
                let sched: Vec<usize> = (0..1 + r.below(6)).map(|_| 1 + r.below(11)).collect();
                run_history(&mut traces[i], c, t, true, &hd, &syms, &prop, Some(sched));
                cases += 1;
            }
        }
    }
    let mut files = vec![];
    let mut lines = 0;
    for t in traces {
        let (p, l, _) = t.finish();
        lines += l;
        files.push(p.to_string_lossy().to_string());
    }
    println!("{}", json!({"cases": cases, "distinct": cases, "lines": lines, "files": files}));
}
