//! Destination failures (C12): for every call index k on each destination the k-th
//! write/seek/flush fails (one-shot, after a partial write, or persistently); every
//! API call's result is logged together with whether the fault fired during it; after
//! a failed finalize the destination is healed, finalize is retried, the writer dropped.
//! Short writes: every chunk size 1..9 and random schedules, as ordinary writer runs.
use crate::cmd_writer::{model_syms, other_type, plain_run, random_syms, run_history, Syms};
use crate::io::*;
use crate::rng::Rng;
use crate::shapes::*;
use crate::trace::*;
use crate::values::*;
use crate::{jbytes, with_inner};
use serde_json::{json, Value};
use shapefile::*;
use std::path::PathBuf;

fn res_of(r: Result<Result<(), Error>, String>) -> String {
    match r {
        Ok(Ok(())) => "ok".to_string(),
        // (a write that accepted nothing surfaces as ErrorKind::WriteZero from write_all: that IS the injected failure)
        Ok(Err(Error::IoError(io))) if io.kind() == std::io::ErrorKind::WriteZero => "io_injected".to_string(),
        Ok(Err(e)) => err_json(&e)["err"].as_str().unwrap().to_string(),
        Err(_) => "panic".to_string(),
    }
}

/// returns the number of calls each destination saw in an undisturbed run
pub fn dry_run(c: &Conc, hist: &str, syms: &Syms) -> (usize, usize) {
    let shp = LogDest::new();
    let shx = LogDest::new();
    {
        let mut w = ShapeWriter::with_shx(shp.clone(), shx.clone());
        let sa = build(c, &syms.a);
        let sb = build(c, &syms.b);
        for ch in hist.chars() {
            match ch {
                'a' => with_inner!(&sa, v => { let _ = w.write_shape(v); }, ()),
                'b' => with_inner!(&sb, v => { let _ = w.write_shape(v); }, ()),
                'F' => {
                    let _ = w.finalize();
                }
                _ => {}
            }
        }
    }
    (shp.calls(), shx.calls())
}

#[allow(clippy::too_many_arguments)]
pub fn run_fault(tr: &mut Trace, c: &Conc, t: i32, hist: &str, syms: &Syms, dest: &str, k: usize, mode: &str, partial: usize, prop: &str) -> bool {
    run_fault_kind(tr, c, t, hist, syms, dest, k, mode, partial, prop, false)
}

/// `interrupted`: a failing seek or flush reports ErrorKind::Interrupted; returns whether the fault hit a seek or flush
#[allow(clippy::too_many_arguments)]
pub fn run_fault_kind(tr: &mut Trace, c: &Conc, t: i32, hist: &str, syms: &Syms, dest: &str, k: usize, mode: &str, partial: usize, prop: &str, interrupted: bool) -> bool {
    let sa = build(c, &syms.a);
    let sb = build(c, &syms.b);
    let (oa, ob) = (abstract_shape(c, &sa), abstract_shape(c, &sb));
    tr.run(json!({"ev": "reset", "kind": "fault", "t": t, "withShx": true, "hist": hist, "dest": dest, "k": k,
                  "mode": mode, "partial": partial, "prop": prop, "interrupted": interrupted}));
    let shp = LogDest::new();
    let shx = LogDest::new();
    let target = if dest == "shp" { shp.clone() } else { shx.clone() };
    target.set_fault(Some(k), mode == "persistent", partial);
    target.set_interrupted(interrupted);
    target.set_zero_mode(mode == "zero");
    if mode == "flushes" {
        // every flush of BOTH destinations fails, nothing else does
        target.set_fault(None, false, 0);
        shp.set_fail_flushes(true);
        shx.set_fail_flushes(true);
    }
    let mut w = Some(ShapeWriter::with_shx(shp.clone(), shx.clone()));
    let mut accepted: Vec<Shape> = vec![];
    let fired_total = |a: &LogDest, b: &LogDest| a.faults_fired() + b.faults_fired();
    for ch in hist.chars() {
        let f0 = fired_total(&shp, &shx);
        match ch {
            'a' | 'b' => {
                let (s, o) = if ch == 'a' { (&sa, &oa) } else { (&sb, &ob) };
                let wr = w.as_mut().unwrap();
                let (n0, x0) = (shp.nops(), shx.nops());
                let r = res_of(guarded(|| with_inner!(s, v => wr.write_shape(v), Ok(()))));
                if r == "ok" {
                    accepted.push(clone_shape(s));
                }
                tr.emit(json!({"ev": "fwrite", "shape": o.to_json(), "res": r, "fired": fired_total(&shp, &shx) > f0,
                               "fxShp": effects_json(&shp.ops()[n0..]), "fxShx": effects_json(&shx.ops()[x0..])}));
            }
            'F' => {
                let wr = w.as_mut().unwrap();
                let r = res_of(guarded(|| wr.finalize()));
                tr.emit(json!({"ev": "ffinalize", "res": r, "fired": fired_total(&shp, &shx) > f0,
                               "shp": jbytes(&shp.bytes()), "shx": jbytes(&shx.bytes()),
                               "flushedShp": shp.is_flushed(), "flushedShx": shx.is_flushed()}));
                // a finalize that failed is called again at once when the failure was transient (every other run):
                // it must complete, and the history that follows must behave as if nothing had happened
                if r != "ok" && mode != "persistent" && k % 2 == 0 {
                    shp.heal();
                    shx.heal();
                    tr.emit(json!({"ev": "heal"}));
                    let f0 = fired_total(&shp, &shx);
                    let wr = w.as_mut().unwrap();
                    let r2 = res_of(guarded(|| wr.finalize()));
                    tr.emit(json!({"ev": "ffinalize", "res": r2, "fired": fired_total(&shp, &shx) > f0,
                                   "shp": jbytes(&shp.bytes()), "shx": jbytes(&shx.bytes()),
                                   "flushedShp": shp.is_flushed(), "flushedShx": shx.is_flushed()}));
                }
            }
            _ => {}
        }
    }
    if mode != "persistent" {
        // the destination works again: finalize is called again, then the writer is dropped
        shp.heal();
        shx.heal();
        tr.emit(json!({"ev": "heal"}));
        let f0 = fired_total(&shp, &shx);
        let wr = w.as_mut().unwrap();
        let r = res_of(guarded(|| wr.finalize()));
        tr.emit(json!({"ev": "ffinalize", "res": r, "fired": fired_total(&shp, &shx) > f0,
                       "shp": jbytes(&shp.bytes()), "shx": jbytes(&shx.bytes()),
                       "flushedShp": shp.is_flushed(), "flushedShx": shx.is_flushed()}));
    }
    let f0 = fired_total(&shp, &shx);
    let wr = w.take().unwrap();
    let r = guarded(move || drop(wr));
    let (ps, px) = plain_run(&accepted, true);
    tr.emit(json!({"ev": "fdrop", "res": if r.is_ok() { "ok" } else { "panic" }, "fired": fired_total(&shp, &shx) > f0,
                   "shp": jbytes(&shp.bytes()), "shx": jbytes(&shx.bytes()),
                   "flushedShp": shp.is_flushed(), "flushedShx": shx.is_flushed(),
                   "plainShp": jbytes(&ps), "plainShx": jbytes(&px)}));
    target.fault_nonwrite()
}

pub fn run(a: &Args) {
    let prop = a.get("prop", "C12");
    let out = PathBuf::from(a.get("out", "work/faults"));
    std::fs::create_dir_all(&out).unwrap();
    let seed = a.num("seed", 1);
    let chunks = a.num("chunks", 8) as usize;
    let ntypes = a.num("types", 13) as usize;
    let nhists = a.num("hists", 2) as usize;
    let mut r = Rng::new(seed.wrapping_mul(65537));
    let hists = ["abF", "aFbF", "aF", "FabF", "abFaF", "aaFbbF", "F", "bFFaF"];
    let mut traces: Vec<Trace> = vec![];
    let mut concs: Vec<Conc> = vec![];
    for ch in 0..chunks {
        let c = Conc::new(&mut r, true);
        let mut meta = c.meta();
        meta["prop"] = json!(prop);
        meta["seed"] = json!(seed);
        meta["family"] = json!("faults");
        traces.push(Trace::create(&out.join(format!("trace-{:03}.ndjson", ch)), meta));
        concs.push(c);
    }
    let mut cases = 0usize;
    let mut kk = 0usize;
    for ti in 0..ntypes {
        let t = ALL_TYPES[(ti + seed as usize) % 13];
        for hi in 0..nhists {
            let hist = hists[(ti + hi + seed as usize) % hists.len()];
            let i = kk % chunks;
            kk += 1;
            let c = &concs[i];
            let syms = if hi == 0 { model_syms(t, other_type(t, 0)) } else { random_syms(&mut r, t, other_type(t, 0)) };
            let (ns, nx) = dry_run(c, hist, &syms);
            for (dest, n) in [("shp", ns), ("shx", nx)] {
                for k in 0..n + 1 {
                    let nonwrite = run_fault(&mut traces[i], c, t, hist, &syms, dest, k, "oneshot", 0, &prop);
                    cases += 1;
                    if nonwrite {
                        // the same failing seek / flush, reported the way EINTR is
                        run_fault_kind(&mut traces[i], c, t, hist, &syms, dest, k, "oneshot", 0, &prop, true);
                        cases += 1;
                    } else if k < n {
                        // the same failing write, as a destination that is full: it accepts 0 bytes and says so
                        run_fault(&mut traces[i], c, t, hist, &syms, dest, k, "zero", 0, &prop);
                        cases += 1;
                    }
                    if k % 3 == 0 {
                        run_fault(&mut traces[i], c, t, hist, &syms, dest, k, "oneshot", 1 + r.below(3), &prop);
                        run_fault(&mut traces[i], c, t, hist, &syms, dest, k, "persistent", 0, &prop);
                        cases += 2;
                    }
                }
            }
            // short writes: same history as an ordinary writer run over chunking destinations
            let hd = format!("{}D", hist);
            for chunk in 1..=9usize {
                run_history(&mut traces[i], c, t, true, &hd, &syms, &prop, Some(vec![chunk]));
                cases += 1;
            }
            for _ in 0..6 {
                let sched: Vec<usize> = (0..1 + r.below(6)).map(|_| 1 + r.below(11)).collect();
                run_history(&mut traces[i], c, t, true, &hd, &syms, &prop, Some(sched));
                cases += 1;
            }
        }
    }
    // long exports on destinations whose flush fails (and nothing else).  Thousands of writes through the byte-level
    // writer model would cost TLC minutes, so this run crosses as ONE event of counts, validated by arithmetic
    // (Trace_Writer!TLongFlush): a write during which a flush failed must have returned that error; finalize
    // reports the failure and succeeds once the destination works; lengths and sampled index entries are exact.
    for (j, n) in a.get("longflush", "1030,4100").split(',').filter_map(|x| x.parse::<usize>().ok()).enumerate() {
        let t = [1, 21, 11][(j + seed as usize) % 3];
        let c = &concs[j % chunks];
        let syms = random_syms(&mut r, t, other_type(t, 0));
        let sa = build(c, &syms.a);
        let (shp, shx) = (LogDest::new(), LogDest::new());
        shp.set_fail_flushes(true);
        shx.set_fail_flushes(true);
        let fired_total = |a: &LogDest, b: &LogDest| a.faults_fired() + b.faults_fired();
        let mut w = ShapeWriter::with_shx(shp.clone(), shx.clone());
        let mut bad: Vec<Value> = vec![];
        let mut nok = 0usize;
        for k in 1..=n {
            let f0 = fired_total(&shp, &shx);
            let res = res_of(guarded(|| with_inner!(&sa, v => w.write_shape(v), Ok(()))));
            let fired = fired_total(&shp, &shx) > f0;
            if res == "ok" { nok += 1; }
            if (fired || res != "ok") && bad.len() < 20 {
                bad.push(json!({"i": k, "res": res, "fired": fired}));
            }
        }
        let f0 = fired_total(&shp, &shx);
        let r1 = res_of(guarded(|| w.finalize()));
        let fin1 = json!({"res": r1, "fired": fired_total(&shp, &shx) > f0});
        shp.heal();
        shx.heal();
        let f0 = fired_total(&shp, &shx);
        let r2 = res_of(guarded(|| w.finalize()));
        let fin2 = json!({"res": r2, "fired": fired_total(&shp, &shx) > f0});
        drop(w);
        let (b, x) = (shp.bytes(), shx.bytes());
        let be = |v: &[u8], o: usize| if o + 4 <= v.len() { i32::from_be_bytes([v[o], v[o + 1], v[o + 2], v[o + 3]]) } else { -1 };
        let words = (b.len().saturating_sub(100) / n.max(1)).saturating_sub(8) / 2;
        let samples: Vec<Value> = [1usize, 2, 1024, 1025, 4096, 4097, n].iter().filter(|k| **k <= n)
            .map(|k| json!([k, be(&x, 100 + 8 * (k - 1)), be(&x, 104 + 8 * (k - 1))])).collect();
        traces[j % chunks].run(json!({"ev": "longflush", "t": t, "n": n, "w": words, "nOk": nok, "bad": bad, "fin1": fin1, "fin2": fin2,
            "shpLen": b.len(), "declared": be(&b, 24), "shxLen": x.len(), "shxDeclared": be(&x, 24), "entries": samples,
            "flushedShp": shp.is_flushed(), "flushedShx": shx.is_flushed()}));
        cases += 1;
    }
    let mut files = vec![];
    let mut lines = 0;
    for t in traces {
        let (p, l, _) = t.finish();
        lines += l;
        files.push(p.to_string_lossy().to_string());
    }
    println!("{}", json!({"cases": cases, "distinct": cases, "lines": lines, "files": files}));
}
