//! Writer histories (C09, C10, C04 writer side, C05 header box).
//!
//! A history is a string over  a b (shapes of the file type, different sizes),
//! x (a shape of another type), F (finalize), ending in D (drop) or W (consumption by
//! write_shapes([a, b])).  Histories come from TLC (MC_Writer prints every history it
//! explored) or are enumerated here; each is performed on the real ShapeWriter over
//! instrumented destinations and every call is logged with its result and effects.
use crate::cmd_codec::write_all_shapes;
use crate::gen::*;
use crate::io::*;
use crate::rng::Rng;
use crate::shapes::*;
use crate::trace::*;
use crate::values::*;
use crate::{for_type, jbytes, with_inner};
use serde_json::{json, Value};
use shapefile::record::WritableShape;
use shapefile::*;
use std::path::PathBuf;

pub struct Syms {
    pub a: AShape,
    pub b: AShape,
    pub x: AShape,
}

fn pts(t: i32, n: usize, k: i32) -> Vec<APoint> {
    (1..=n as i32)
        .map(|i| {
            [
                ((i + k).rem_euclid(5)) - 2,
                ((2 * i + k).rem_euclid(7)) - 3,
                if stores_z(t) { (i + k).rem_euclid(3) } else { 0 },
                if stores_m(t) { ((i * k).rem_euclid(4)) - 1 } else { 0 },
            ]
        })
        .collect()
}

/// the deterministic shapes MC_Writer uses (Mk(t, n, k))
pub fn mk(t: i32, n: usize, k: i32) -> AShape {
    let p = pts(t, n, k);
    let (parts, kinds) = match family(t) {
        "point" => (vec![vec![p[0]]], vec![]),
        "multipoint" => (vec![p], vec![]),
        "polyline" => (vec![p, pts(t, 2, k + 1)], vec![]),
        "polygon" => (vec![p, pts(t, 2, k + 1)], vec![0, 1]),
        "multipatch" => (vec![p, pts(t, 2, k + 1)], vec![2, 0]),
        _ => panic!(),
    };
    AShape { t, parts, kinds, bbox: [0; 8] }
}

pub fn model_syms(t: i32, tx: i32) -> Syms {
    Syms { a: mk(t, 2, 1), b: mk(t, 3, 2), x: mk(tx, 2, 3) }
}

pub fn random_syms(r: &mut Rng, t: i32, tx: i32) -> Syms {
    let g = GenCfg::small();
    let mut s = Syms { a: gen_shape_with(r, t, &g, true), b: gen_shape_with(r, t, &GenCfg::medium(), true), x: gen_shape_with(r, tx, &g, true) };
    // measure profiles: every measure below the no-data threshold / exactly no-data / all real
    let profile = r.below(4);
    if profile < 3 && stores_m(t) {
        for sh in [&mut s.a, &mut s.b] {
            for part in sh.parts.iter_mut() {
                for p in part.iter_mut() {
                    p[3] = match profile {
                        0 => -8 + (p[3].rem_euclid(3)),      // -8, -7, -6: all below NO_DATA
                        1 => ND,
                        _ => 1 + p[3].rem_euclid(7),
                    };
                }
            }
        }
    }
    // Z profiles: every Z of a (or of a and b) is the greatest / the least id (an infinity in every other trace file)
    if stores_z(t) {
        let zp = r.below(6);
        if zp < 3 {
            let v = if zp == 1 { IDMIN } else { IDMAX };
            for part in s.a.parts.iter_mut() {
                for p in part.iter_mut() {
                    p[2] = v;
                }
            }
            if zp == 2 {
                for part in s.b.parts.iter_mut() {
                    for p in part.iter_mut() {
                        p[2] = v;
                    }
                }
            }
        }
    }
    s
}

fn write_res(r: Result<Result<(), Error>, String>) -> Value {
    match r {
        Ok(Ok(())) => json!({"res": "ok", "req": 0, "act": 0}),
        Ok(Err(Error::MismatchShapeType { requested, actual })) => {
            json!({"res": "mismatch", "req": requested as i32, "act": actual as i32})
        }
        Ok(Err(e)) => {
            let j = err_json(&e);
            json!({"res": j["err"], "req": 0, "act": 0})
        }
        Err(p) => json!({"res": "panic", "req": 0, "act": 0, "msg": p}),
    }
}

pub fn plain_run(shapes: &[Shape], with_shx: bool) -> (Vec<u8>, Vec<u8>) {
    let shp = LogDest::new();
    let shx = LogDest::new();
    let _ = guarded(|| {
        let mut w = if with_shx { ShapeWriter::with_shx(shp.clone(), shx.clone()) } else { ShapeWriter::new(shp.clone()) };
        let _ = write_all_shapes(&mut w, shapes);
    });
    (shp.bytes(), shx.bytes())
}

/// perform one history on the real writer and log it
/// what can be observed of the destinations between two calls
pub struct Obs {
    pub shp: Vec<u8>,
    pub shx: Vec<u8>,
    pub calls: (usize, usize),
    pub nops: (usize, usize),
    pub flushed: (bool, bool),
}

pub fn run_history(tr: &mut Trace, c: &Conc, t: i32, with_shx: bool, hist: &str, syms: &Syms, prop: &str, short: Option<Vec<usize>>) {
    let shp = LogDest::new();
    let shx = LogDest::new();
    if let Some(s) = &short {
        // destinations that accept fewer bytes than offered per call (C12)
        shp.set_schedule(s.clone());
        shx.set_schedule(s.clone());
    }
    let (s1, x1) = (shp.clone(), shx.clone());
    let w = if with_shx { ShapeWriter::with_shx(shp.clone(), shx.clone()) } else { ShapeWriter::new(shp.clone()) };
    let observe = move || Obs { shp: s1.bytes(), shx: x1.bytes(), calls: (s1.calls(), x1.calls()), nops: (s1.nops(), x1.nops()),
                                flushed: (s1.is_flushed(), x1.is_flushed()) };
    let (s2, x2) = (shp.clone(), shx.clone());
    let fx = move |n1: usize, n2: usize| (effects_json(&s2.ops()[n1..]), effects_json(&x2.ops()[n2..]));
    run_history_on(tr, c, t, with_shx, hist, syms, prop, short.unwrap_or_default(), true, w, &observe, &fx);
}

/// the same history on files created by path (BufWriter<File>): what is on disk after each
/// finalize and after drop must be complete; I/O of individual calls cannot be observed
pub fn run_history_path(tr: &mut Trace, c: &Conc, t: i32, hist: &str, syms: &Syms, prop: &str, path: &std::path::Path) {
    crate::cmd_codec::prepopulate(path);
    let w = match ShapeWriter::from_path(path) {
        Ok(w) => w,
        Err(_) => return,
    };
    let p = path.to_path_buf();
    let observe = move || Obs { shp: std::fs::read(&p).unwrap_or_default(), shx: std::fs::read(p.with_extension("shx")).unwrap_or_default(),
                                calls: (0, 0), nops: (0, 0), flushed: (true, true) };
    let fx = |_: usize, _: usize| (json!([]), json!([]));
    run_history_on(tr, c, t, true, hist, syms, prop, vec![], false, w, &observe, &fx);
    let _ = std::fs::remove_file(path);
    let _ = std::fs::remove_file(path.with_extension("shx"));
}

#[allow(clippy::too_many_arguments)]
pub fn run_history_on<T: std::io::Write + std::io::Seek>(
    tr: &mut Trace, c: &Conc, t: i32, with_shx: bool, hist: &str, syms: &Syms, prop: &str, short: Vec<usize>, observed: bool,
    writer: ShapeWriter<T>, observe: &dyn Fn() -> Obs, fx: &dyn Fn(usize, usize) -> (Value, Value),
) {
    let sa = build(c, &syms.a);
    let sb = build(c, &syms.b);
    let sx = build(c, &syms.x);
    let (oa, ob, ox) = (abstract_shape(c, &sa), abstract_shape(c, &sb), abstract_shape(c, &sx));
    tr.run(json!({"ev": "reset", "kind": "writer", "t": t, "tx": syms.x.t, "withShx": with_shx, "hist": hist, "prop": prop,
                  "shortWrites": short, "observed": observed}));
    let mut w = Some(writer);
    let mut accepted: Vec<Shape> = vec![];
    for ch in hist.chars() {
        let o0 = observe();
        let (n1, n2) = o0.nops;
        let (c1, c2) = o0.calls;
        match ch {
            'a' | 'b' | 'x' => {
                let (s, o) = match ch {
                    'a' => (&sa, &oa),
                    'b' => (&sb, &ob),
                    _ => (&sx, &ox),
                };
                let wr = w.as_mut().unwrap();
                let r = guarded(|| with_inner!(s, v => wr.write_shape(v), Ok(())));
                let mut e = write_res(r);
                if e["res"] == "ok" {
                    accepted.push(clone_shape(s));
                }
                e["ev"] = json!("write");
                e["shape"] = o.to_json();
                let o1 = observe();
                // (by path nothing can be observed of a single call: say what the result implies)
                e["io"] = json!(if observed { o1.calls != (c1, c2) } else { e["res"] == "ok" });
                let (f1, f2) = fx(n1, n2);
                e["fxShp"] = f1;
                e["fxShx"] = f2;
                tr.emit(e);
            }
            'F' => {
                let wr = w.as_mut().unwrap();
                let r = guarded(|| wr.finalize());
                let mut e = write_res(r);
                e["ev"] = json!("finalize");
                let o1 = observe();
                e["io"] = json!(if observed { o1.calls != (c1, c2) } else { true });
                // a finalize that issued no operation cannot have changed a byte: the files
                // are those of the previous commit point and are not shipped again
                let io = e["io"] == json!(true);
                e["shp"] = jbytes(&if io { o1.shp.clone() } else { vec![] });
                e["shx"] = jbytes(&if io { o1.shx.clone() } else { vec![] });
                e["flushedShp"] = json!(o1.flushed.0);
                e["flushedShx"] = json!(o1.flushed.1);
                tr.emit(e);
            }
            'E' => {
                // consumption by write_shapes(&[]): nothing is added, the writer is dropped inside the call
                let wr = w.take().unwrap();
                let r = guarded(|| {
                    for_type!(t, S, {
                        let v: Vec<S> = vec![];
                        wr.write_shapes(&v)
                    })
                });
                let mut e = write_res(r);
                let (ps, px) = plain_run(&accepted, with_shx);
                e["ev"] = json!("drop");
                e["unwinding"] = json!(false);
                e["emptyBulk"] = json!(true);
                e["shapes"] = json!([oa.to_json(), ob.to_json()]);
                let o1 = observe();
                e["shp"] = jbytes(&o1.shp);
                e["shx"] = jbytes(&o1.shx);
                e["flushedShp"] = json!(o1.flushed.0);
                e["flushedShx"] = json!(o1.flushed.1);
                e["plainShp"] = jbytes(&ps);
                e["plainShx"] = jbytes(&px);
                tr.emit(e);
            }
            'X' => {
                // consumption by write_shapes([x, x]) on a file of another type: refused at its first shape, and the
                // writer, consumed by the call, is dropped inside it
                let wr = w.take().unwrap();
                let tx = syms.x.t;
                let r = guarded(|| {
                    for_type!(tx, S, {
                        let v: Vec<S> = vec![S::try_from(clone_shape(&sx)).ok().unwrap(), S::try_from(clone_shape(&sx)).ok().unwrap()];
                        wr.write_shapes(&v)
                    })
                });
                let mut e = write_res(r);
                let (ps, px) = plain_run(&accepted, with_shx);
                e["ev"] = json!("consumex");
                e["tx"] = json!(tx);
                let o1 = observe();
                e["shp"] = jbytes(&o1.shp);
                e["shx"] = jbytes(&o1.shx);
                e["flushedShp"] = json!(o1.flushed.0);
                e["flushedShx"] = json!(o1.flushed.1);
                e["plainShp"] = jbytes(&ps);
                e["plainShx"] = jbytes(&px);
                tr.emit(e);
            }
            'D' | 'W' | 'U' => {
                let wr = w.take().unwrap();
                let mut res = json!({"res": "ok"});
                if ch == 'W' {
                    // consumption by write_shapes([a, b]) -- both of the file's type t
                    let r = guarded(|| {
                        for_type!(t, S, {
                            let v: Vec<S> = vec![S::try_from(clone_shape(&sa)).ok().unwrap(), S::try_from(clone_shape(&sb)).ok().unwrap()];
                            wr.write_shapes(&v)
                        })
                    });
                    res = write_res(r);
                    if res["res"] == "ok" {
                        accepted.push(clone_shape(&sa));
                        accepted.push(clone_shape(&sb));
                    }
                } else if ch == 'U' {
                    // the writer goes out of scope while its thread unwinds from a panic of the caller
                    let r = guarded(move || {
                        let _w = wr;
                        if std::hint::black_box(true) {
                            panic!("UNWINDING-CALLER");
                        }
                    });
                    match r {
                        Err(p) if p.contains("UNWINDING-CALLER") => {}
                        Err(p) => res = json!({"res": "panic", "msg": p}),
                        Ok(()) => res = json!({"res": "panic", "msg": "no unwinding"}),
                    }
                } else {
                    let r = guarded(move || drop(wr));
                    if let Err(p) = r {
                        res = json!({"res": "panic", "msg": p});
                    }
                }
                let (ps, px) = plain_run(&accepted, with_shx);
                let mut e = res;
                e["ev"] = json!(if ch == 'W' { "consume" } else { "drop" });
                e["unwinding"] = json!(ch == 'U');
                e["shapes"] = json!([oa.to_json(), ob.to_json()]);
                let o1 = observe();
                e["shp"] = jbytes(&o1.shp);
                e["shx"] = jbytes(&o1.shx);
                e["flushedShp"] = json!(o1.flushed.0);
                e["flushedShx"] = json!(o1.flushed.1);
                e["plainShp"] = jbytes(&ps);
                e["plainShx"] = jbytes(&px);
                tr.emit(e);
            }
            _ => panic!("bad history symbol {}", ch),
        }
    }
}

/// all strings over the alphabet of length <= n
pub fn all_hists(alpha: &[char], n: usize) -> Vec<String> {
    let mut out = vec![String::new()];
    let mut cur = vec![String::new()];
    for _ in 0..n {
        let mut nxt = vec![];
        for h in &cur {
            for a in alpha {
                let mut s = h.clone();
                s.push(*a);
                nxt.push(s);
            }
        }
        out.extend(nxt.iter().cloned());
        cur = nxt;
    }
    out
}

pub fn other_type(t: i32, k: usize) -> i32 {
    let others: Vec<i32> = ALL_TYPES.iter().copied().filter(|x| *x != t).collect();
    others[k % others.len()]
}

pub fn run(a: &Args) {
    let prop = a.get("prop", "all");
    let out = PathBuf::from(a.get("out", "work/writer"));
    std::fs::create_dir_all(&out).unwrap();
    let seed = a.num("seed", 1);
    let chunks = a.num("chunks", 8) as usize;
    let maxlen = a.num("maxlen", 3) as usize;
    let deep_len = a.num("deeplen", 0) as usize;
    let deep_types = a.num("deeptypes", 3) as usize;
    let nrandom = a.num("random", 20) as usize;
    let all_x = a.has("allx");
    let model_types = a.num("modeltypes", 13) as usize;
    // histories explored by TLC (MC_Writer), one per line: "<0|1> <hist>"
    let mut model_hists: Vec<(bool, String)> = vec![];
    if let Some(f) = a.0.get("histfile") {
        for line in std::fs::read_to_string(f).unwrap().lines() {
            let mut it = line.split_whitespace();
            if let (Some(w), h) = (it.next(), it.next().unwrap_or("")) {
                model_hists.push((w == "1", h.to_string()));
            }
        }
    }
    let tmpdir = if a.has("nopath") { None } else { Some(crate::cmd_codec::TmpDir::new(&out, "writer")) };
    let mut traces: Vec<Trace> = vec![];
    let mut concs: Vec<Conc> = vec![];
    for ch in 0..chunks {
        let mut r = Rng::new(seed.wrapping_mul(7919).wrapping_add(ch as u64));
        // rank=1: ranked special doubles (+-inf, +-MAX, ...) for X/Y in every other file (C05)
        let c = Conc::new(&mut r, !(a.has("rank") && ch % 2 == 1));
        let c = if ch % 2 == 0 { c.force_inf() } else { c };
        let mut meta = c.meta();
        meta["prop"] = json!(prop);
        meta["seed"] = json!(seed);
        meta["family"] = json!("writer");
        traces.push(Trace::create(&out.join(format!("trace-{:03}.ndjson", ch)), meta));
        concs.push(c);
    }
    let mut k = 0usize;
    let mut distinct = std::collections::HashSet::new();
    let mut r = Rng::new(seed ^ 0x5eed);
    for (ti, &t) in ALL_TYPES.iter().enumerate() {
        let xs: Vec<i32> = if all_x { ALL_TYPES.iter().copied().filter(|x| *x != t).collect() } else { vec![other_type(t, ti + seed as usize)] };
        // 1. the histories of the model, with the model's shapes
        for (ws, h) in &model_hists {
            if (ti + seed as usize) % 13 >= model_types {
                break;
            }
            let syms = model_syms(t, xs[0]);
            let i = k % chunks;
            k += 1;
            distinct.insert((t, *ws, h.clone()));
            run_history(&mut traces[i], &concs[i], t, *ws, h, &syms, &prop, None);
        }
        // 2. exhaustive enumeration here (all endings), with random shapes
        let n = if ti < deep_types && deep_len > 0 { deep_len } else { maxlen };
        for tx in &xs {
            let syms = random_syms(&mut r, t, *tx);
            for h in all_hists(&['a', 'b', 'x', 'F'], n) {
                for ending in ["D", "FD", "W", "U", "X", "E"] {
                    for ws in [true, false] {
                        // X (a refused consuming bulk write) needs a file of type t: the first write is a or b
                        if ending == "X" && !matches!(h.chars().find(|c| *c != 'F'), Some('a') | Some('b')) {
                            continue;
                        }
                        if all_x && ending != "D" && *tx != xs[0] {
                            continue;
                        }
                        // (dropped while unwinding from a caller's panic: on the indexed writer only)
                        if (ending == "U" || ending == "E") && !ws {
                            continue;
                        }
                        // W needs the file type to be t (or unset): skip when x came first
                        let first = h.chars().find(|c| *c != 'F');
                        if ending == "W" && first == Some('x') {
                            continue;
                        }
                        let hh = format!("{}{}", h, ending);
                        let i = k % chunks;
                        k += 1;
                        distinct.insert((t, ws, hh.clone()));
                        run_history(&mut traces[i], &concs[i], t, ws, &hh, &syms, &prop, None);
                    }
                }
            }
        }
        // 2b. the same on files created by path (BufWriter<File>)
        if let Some(tmp) = &tmpdir {
            let syms = random_syms(&mut r, t, xs[0]);
            for h in all_hists(&['a', 'b', 'x', 'F'], maxlen.min(if a.num("pathlen", 2) as usize > 0 { a.num("pathlen", 2) as usize } else { 0 })) {
                for ending in ["D", "FD"] {
                    let hh = format!("{}{}", h, ending);
                    let i = k % chunks;
                    k += 1;
                    distinct.insert((t, true, format!("path:{}", hh)));
                    run_history_path(&mut traces[i], &concs[i], t, &hh, &syms, &prop, &crate::cmd_codec::path_variant(&tmp.0, "p", k));
                }
            }
        }
        // 2c. destinations that accept only a few bytes per call (legal for Write): the files are the same
        {
            let syms = random_syms(&mut r, t, xs[0]);
            for (h, chunk) in [("abD", 1usize), ("aFbD", 3), ("abFD", 7), ("aXD", 2), ("abU", 5)] {
                let h = h.replace('X', "x");
                let i = k % chunks;
                k += 1;
                distinct.insert((t, true, format!("short{}:{}", chunk, h)));
                run_history(&mut traces[i], &concs[i], t, true, &h, &syms, &prop, Some(vec![chunk]));
            }
        }
        // 3. long random histories
        for _ in 0..nrandom {
            let len = 5 + r.below(26);
            let mut h: String = (0..len).map(|_| *r.pick(&['a', 'b', 'a', 'b', 'x', 'F', 'F'])).collect();
            h.push_str(*r.pick(&["D", "FD", "W", "U", "FU", "X", "X", "E", "E"]));
            if h.ends_with('X') && !matches!(h.chars().find(|c| *c != 'F'), Some('a') | Some('b')) {
                h.pop();
                h.push('D');
            }
            if h.ends_with('W') && h.chars().find(|c| *c != 'F') == Some('x') {
                h.pop();
                h.push('D');
            }
            let txr = xs[r.below(xs.len())];
            let syms = random_syms(&mut r, t, txr);
            let ws = r.chance(1, 2);
            let i = k % chunks;
            k += 1;
            distinct.insert((t, ws, h.clone()));
            run_history(&mut traces[i], &concs[i], t, ws, &h, &syms, &prop, None);
        }
    }
    // 5. a .shp that approaches 2 GiB (into a sink that only counts): a shape of another type is refused for its
    //    TYPE there as everywhere else
    if (prop == "C10" || prop == "all") && !a.has("nogiga") {
        struct CountSink { pos: u64, len: u64 }
        impl std::io::Write for CountSink {
            fn write(&mut self, b: &[u8]) -> std::io::Result<usize> { self.pos += b.len() as u64; self.len = self.len.max(self.pos); Ok(b.len()) }
            fn flush(&mut self) -> std::io::Result<()> { Ok(()) }
        }
        impl std::io::Seek for CountSink {
            fn seek(&mut self, to: std::io::SeekFrom) -> std::io::Result<u64> {
                self.pos = match to { std::io::SeekFrom::Start(n) => n, std::io::SeekFrom::End(d) => (self.len as i64 + d) as u64, std::io::SeekFrom::Current(d) => (self.pos as i64 + d) as u64 };
                Ok(self.pos)
            }
        }
        let npts = 4_000_000usize;
        let big = Polyline::new((0..npts).map(|i| Point::new((i % 1000) as f64, (i % 777) as f64)).collect());
        let other = Multipoint::new((0..npts).map(|i| Point::new((i % 10) as f64, 1.0)).collect());
        let mut w = ShapeWriter::new(CountSink { pos: 0, len: 0 });
        let mut ok = 0usize;
        let per_words = (big.size_in_bytes() + 4) / 2 + 4;
        let n_big = ((1usize << 30) - 50) / per_words;            // as many as fit below 2^30 words
        for _ in 0..n_big {
            if w.write_shape(&big).is_ok() { ok += 1; }
        }
        let res = write_res(guarded(|| w.write_shape(&other)));
        let mut e = res;
        e["ev"] = json!("giga");
        e["n"] = json!(n_big);
        e["ok"] = json!(ok);
        e["words"] = json!(50 + ok * per_words);
        e["otherWords"] = json!((other.size_in_bytes() + 4) / 2 + 4);
        traces[k % chunks].run(e);
        k += 1;
        std::mem::forget(w);
    }
    // 4. histories that reach "round" numbers of uncommitted records (255, 256, 257, 512) before the event of
    //    interest: a refused write, a finalize, another write (point shapes: the traces stay small)
    if !a.has("nolong") {
        let t = [1, 21, 11][seed as usize % 3];
        let syms = random_syms(&mut r, t, other_type(t, seed as usize));
        for n in [255usize, 256, 257, 512] {
            for tail in ["xD", "xFaD", "FxaU"] {
                let h = format!("{}{}", "a".repeat(n), tail);
                let i = k % chunks;
                k += 1;
                distinct.insert((t, true, h.clone()));
                run_history(&mut traces[i], &concs[i], t, n % 2 == 0, &h, &syms, &prop, None);
            }
        }
    }
    let mut files = vec![];
    let mut lines = 0;
    for t in traces {
        let (p, l, _) = t.finish();
        lines += l;
        files.push(p.to_string_lossy().to_string());
    }
    println!("{}", json!({"cases": k, "distinct": distinct.len(), "lines": lines, "files": files,
                          "model_histories": model_hists.len()}));
}
