//! Generators of abstract shapes that the public constructors accept.
use crate::rng::Rng;
use crate::shapes::*;
use crate::values::*;

pub struct GenCfg {
    pub max_parts: usize,
    pub max_pts: usize,
    /// probability (in 1/100) that a Z or M value is one of the special ids
    pub special_pct: u64,
    /// largest |id| for x and y
    pub xy_span: i32,
}

impl GenCfg {
    pub fn small() -> Self {
        GenCfg { max_parts: 3, max_pts: 4, special_pct: 25, xy_span: 8 }
    }
    pub fn medium() -> Self {
        GenCfg { max_parts: 6, max_pts: 12, special_pct: 15, xy_span: 8 }
    }
    pub fn large() -> Self {
        GenCfg { max_parts: 40, max_pts: 40, special_pct: 10, xy_span: 8 }
    }
}

const SPECIAL_ZM: [i32; 6] = [-8, -7, -6, ND, -4, NANV];

pub fn gen_point(r: &mut Rng, t: i32, g: &GenCfg) -> APoint {
    let x = r.range(-g.xy_span as i64, g.xy_span as i64) as i32;
    let y = r.range(-g.xy_span as i64, g.xy_span as i64) as i32;
    let zm = |r: &mut Rng| -> i32 {
        if r.chance(g.special_pct, 100) {
            *r.pick(&SPECIAL_ZM)
        } else {
            r.range(IDMIN as i64, IDMAX as i64) as i32
        }
    };
    let z = if stores_z(t) { zm(r) } else { 0 };
    let m = if stores_m(t) { zm(r) } else { 0 };
    [x, y, z, m]
}

/// points without NaN anywhere (the domain of the box properties)
pub fn gen_point_nonan(r: &mut Rng, t: i32, g: &GenCfg) -> APoint {
    let mut p = gen_point(r, t, g);
    while p[2] == NANV {
        p[2] = r.range(IDMIN as i64, IDMAX as i64) as i32;
    }
    while p[3] == NANV {
        p[3] = r.range(IDMIN as i64, IDMAX as i64) as i32;
    }
    p
}

pub fn gen_shape_with(r: &mut Rng, t: i32, g: &GenCfg, nonan: bool) -> AShape {
    let gp = |r: &mut Rng| if nonan { gen_point_nonan(r, t, g) } else { gen_point(r, t, g) };
    match family(t) {
        "point" => AShape { t, parts: vec![vec![gp(r)]], kinds: vec![], bbox: [0; 8] },
        "multipoint" => {
            let n = 1 + r.below(g.max_pts * 2);
            AShape { t, parts: vec![(0..n).map(|_| gp(r)).collect()], kinds: vec![], bbox: [0; 8] }
        }
        "polyline" => {
            let np = 1 + r.below(g.max_parts);
            let parts = (0..np).map(|_| (0..2 + r.below(g.max_pts)).map(|_| gp(r)).collect()).collect();
            AShape { t, parts, kinds: vec![], bbox: [0; 8] }
        }
        "polygon" => {
            let np = 1 + r.below(g.max_parts);
            let mut parts: Vec<Vec<APoint>> = vec![];
            let mut kinds = vec![];
            for pi in 0..np {
                // a ring other than the first may be empty (the constructors accept it)
                let n = if pi > 0 && r.chance(1, 12) { 0 } else { 1 + r.below(g.max_pts + 1) };
                let mut ring: Vec<APoint> = (0..n).map(|_| gp(r)).collect();
                if r.chance(1, 2) && n > 1 {
                    let f = ring[0];
                    ring.push(f); // already closed
                }
                parts.push(ring);
                kinds.push(r.below(2) as i32);
            }
            AShape { t, parts, kinds, bbox: [0; 8] }
        }
        "multipatch" => {
            let np = 1 + r.below(g.max_parts);
            // a patch other than the first may be empty (the constructors accept it)
            let parts = (0..np).map(|pi| (0..if pi > 0 && r.chance(1, 12) { 0 } else { 1 + r.below(g.max_pts + 1) }).map(|_| gp(r)).collect()).collect();
            let kinds = (0..np).map(|_| r.below(6) as i32).collect();
            AShape { t, parts, kinds, bbox: [0; 8] }
        }
        _ => panic!(),
    }
}

pub fn gen_shape(r: &mut Rng, t: i32, g: &GenCfg) -> AShape {
    gen_shape_with(r, t, g, false)
}
