//! Shapes over RAW doubles (any bit pattern), beside the id-abstracted ones of shapes.rs: the part of the
//! specification written on IEEE-754 bytes (spec/F64Bits.tla) is bound through these.
use crate::rng::Rng;
use crate::shapes::{family, patch, patch_kind, stores_m, stores_z};
use serde_json::{json, Value};
use shapefile::record::PolygonRing;
use shapefile::*;

pub type RPoint = [f64; 4];

#[derive(Clone, Debug)]
pub struct RawShape {
    pub t: i32,
    pub parts: Vec<Vec<RPoint>>,
    pub kinds: Vec<i32>,
    pub bbox: [f64; 8],
}

fn fb(v: f64) -> Value {
    json!(v.to_le_bytes().to_vec())
}

impl RawShape {
    pub fn to_json(&self) -> Value {
        json!({"t": self.t,
               "parts": self.parts.iter().map(|p| p.iter().map(|q| q.iter().map(|v| fb(*v)).collect::<Vec<_>>()).collect::<Vec<_>>()).collect::<Vec<_>>(),
               "kinds": self.kinds,
               "box": self.bbox.iter().map(|v| fb(*v)).collect::<Vec<_>>()})
    }
}

/// a double of any class; `nan`: NaN allowed
pub fn gen_f64(r: &mut Rng, nan: bool) -> f64 {
    let nd = shapefile::NO_DATA;
    let v = match r.below(16) {
        0 | 1 | 2 => f64::from_bits(r.next()),
        3 => 0.0,
        4 => -0.0,
        5 => f64::from_bits(r.next() & 0x000f_ffff_ffff_ffff),                       // subnormal
        6 => -f64::from_bits(r.next() & 0x000f_ffff_ffff_ffff),
        7 => *r.pick(&[f64::INFINITY, f64::NEG_INFINITY, f64::MAX, -f64::MAX, f64::MIN_POSITIVE]),
        8 => *r.pick(&[nd, nd.next_up(), nd.next_down(), -9.99e38, -1.01e39, -1e38]),
        9 => f64::from_bits(0x7ff0_0000_0000_0000 | (r.next() & 0x000f_ffff_ffff_ffff) | 1 | ((r.next() & 1) << 63)), // NaN, any payload
        10 => (r.range(-5, 5) as f64) * 0.1,
        11 => 0.1 + 0.2,
        _ => r.range(-1000, 1000) as f64 / 8.0,
    };
    if v.is_nan() && !nan {
        // keep sign and mantissa, take a finite exponent
        f64::from_bits((v.to_bits() & 0x800f_ffff_ffff_ffff) | (((r.below(2046) + 1) as u64) << 52))
    } else {
        v
    }
}

pub fn gen_point(r: &mut Rng, t: i32) -> RPoint {
    [gen_f64(r, false), gen_f64(r, false), if stores_z(t) { gen_f64(r, true) } else { 0.0 }, if stores_m(t) { gen_f64(r, true) } else { 0.0 }]
}

pub fn gen_raw(r: &mut Rng, t: i32) -> RawShape {
    let (parts, kinds): (Vec<Vec<RPoint>>, Vec<i32>) = match family(t) {
        "point" => (vec![vec![gen_point(r, t)]], vec![]),
        "multipoint" => (vec![(0..1 + r.below(5)).map(|_| gen_point(r, t)).collect()], vec![]),
        f => {
            let np = 1 + r.below(3);
            let parts: Vec<Vec<RPoint>> = (0..np).map(|_| (0..2 + r.below(4)).map(|_| gen_point(r, t)).collect()).collect();
            let kinds = match f {
                "polygon" => (0..np).map(|_| r.below(2) as i32).collect(),
                "multipatch" => (0..np).map(|_| r.below(6) as i32).collect(),
                _ => vec![],
            };
            (parts, kinds)
        }
    };
    RawShape { t, parts, kinds, bbox: [0.0; 8] }
}

fn p2(p: &RPoint) -> Point { Point::new(p[0], p[1]) }
fn pm(p: &RPoint) -> PointM { PointM::new(p[0], p[1], p[3]) }
fn pz(p: &RPoint) -> PointZ { PointZ::new(p[0], p[1], p[2], p[3]) }
fn ring<P>(role: i32, pts: Vec<P>) -> PolygonRing<P> { if role == 0 { PolygonRing::Outer(pts) } else { PolygonRing::Inner(pts) } }

/// through the public constructors
pub fn build_raw(a: &RawShape) -> Shape {
    let parts = &a.parts;
    match a.t {
        1 => Shape::Point(p2(&parts[0][0])),
        21 => Shape::PointM(pm(&parts[0][0])),
        11 => Shape::PointZ(pz(&parts[0][0])),
        8 => Shape::Multipoint(Multipoint::new(parts[0].iter().map(p2).collect())),
        28 => Shape::MultipointM(MultipointM::new(parts[0].iter().map(pm).collect())),
        18 => Shape::MultipointZ(MultipointZ::new(parts[0].iter().map(pz).collect())),
        3 => Shape::Polyline(Polyline::with_parts(parts.iter().map(|p| p.iter().map(p2).collect()).collect())),
        23 => Shape::PolylineM(PolylineM::with_parts(parts.iter().map(|p| p.iter().map(pm).collect()).collect())),
        13 => Shape::PolylineZ(PolylineZ::with_parts(parts.iter().map(|p| p.iter().map(pz).collect()).collect())),
        5 => Shape::Polygon(Polygon::with_rings(parts.iter().zip(&a.kinds).map(|(p, k)| ring(*k, p.iter().map(p2).collect())).collect())),
        25 => Shape::PolygonM(PolygonM::with_rings(parts.iter().zip(&a.kinds).map(|(p, k)| ring(*k, p.iter().map(pm).collect())).collect())),
        15 => Shape::PolygonZ(PolygonZ::with_rings(parts.iter().zip(&a.kinds).map(|(p, k)| ring(*k, p.iter().map(pz).collect())).collect())),
        31 => Shape::Multipatch(Multipatch::with_parts(parts.iter().zip(&a.kinds).map(|(p, k)| patch(*k, p.iter().map(pz).collect())).collect())),
        _ => panic!("type"),
    }
}

fn r2(p: &Point) -> RPoint { [p.x, p.y, 0.0, 0.0] }
fn rm(p: &PointM) -> RPoint { [p.x, p.y, 0.0, p.m] }
fn rz(p: &PointZ) -> RPoint { [p.x, p.y, p.z, p.m] }

/// through the public accessors
pub fn raw_of(s: &Shape) -> RawShape {
    macro_rules! bx2 { ($b:expr) => { [$b.min.x, $b.min.y, $b.max.x, $b.max.y, 0.0, 0.0, 0.0, 0.0] }; }
    macro_rules! bxm { ($b:expr) => { [$b.min.x, $b.min.y, $b.max.x, $b.max.y, 0.0, 0.0, $b.min.m, $b.max.m] }; }
    macro_rules! bxz { ($b:expr) => { [$b.min.x, $b.min.y, $b.max.x, $b.max.y, $b.min.z, $b.max.z, $b.min.m, $b.max.m] }; }
    fn rings<P>(rs: &[PolygonRing<P>], f: impl Fn(&P) -> RPoint) -> (Vec<Vec<RPoint>>, Vec<i32>) {
        (rs.iter().map(|r| r.points().iter().map(&f).collect()).collect(),
         rs.iter().map(|r| match r { PolygonRing::Outer(_) => 0, PolygonRing::Inner(_) => 1 }).collect())
    }
    match s {
        Shape::NullShape => RawShape { t: 0, parts: vec![], kinds: vec![], bbox: [0.0; 8] },
        Shape::Point(p) => RawShape { t: 1, parts: vec![vec![r2(p)]], kinds: vec![], bbox: [0.0; 8] },
        Shape::PointM(p) => RawShape { t: 21, parts: vec![vec![rm(p)]], kinds: vec![], bbox: [0.0; 8] },
        Shape::PointZ(p) => RawShape { t: 11, parts: vec![vec![rz(p)]], kinds: vec![], bbox: [0.0; 8] },
        Shape::Multipoint(m) => RawShape { t: 8, parts: vec![m.points().iter().map(r2).collect()], kinds: vec![], bbox: bx2!(m.bbox()) },
        Shape::MultipointM(m) => RawShape { t: 28, parts: vec![m.points().iter().map(rm).collect()], kinds: vec![], bbox: bxm!(m.bbox()) },
        Shape::MultipointZ(m) => RawShape { t: 18, parts: vec![m.points().iter().map(rz).collect()], kinds: vec![], bbox: bxz!(m.bbox()) },
        Shape::Polyline(l) => RawShape { t: 3, parts: l.parts().iter().map(|p| p.iter().map(r2).collect()).collect(), kinds: vec![], bbox: bx2!(l.bbox()) },
        Shape::PolylineM(l) => RawShape { t: 23, parts: l.parts().iter().map(|p| p.iter().map(rm).collect()).collect(), kinds: vec![], bbox: bxm!(l.bbox()) },
        Shape::PolylineZ(l) => RawShape { t: 13, parts: l.parts().iter().map(|p| p.iter().map(rz).collect()).collect(), kinds: vec![], bbox: bxz!(l.bbox()) },
        Shape::Polygon(g) => { let (parts, kinds) = rings(g.rings(), r2); RawShape { t: 5, parts, kinds, bbox: bx2!(g.bbox()) } }
        Shape::PolygonM(g) => { let (parts, kinds) = rings(g.rings(), rm); RawShape { t: 25, parts, kinds, bbox: bxm!(g.bbox()) } }
        Shape::PolygonZ(g) => { let (parts, kinds) = rings(g.rings(), rz); RawShape { t: 15, parts, kinds, bbox: bxz!(g.bbox()) } }
        Shape::Multipatch(m) => RawShape { t: 31, parts: m.patches().iter().map(|p| p.points().iter().map(rz).collect()).collect(),
                                           kinds: m.patches().iter().map(patch_kind).collect(), bbox: bxz!(m.bbox()) },
    }
}

/// an encoder of its own (not the library's): the .shp / .shx bytes of raw shapes of one type, with their M block;
/// boxes are taken from the shapes as given (nothing is computed, closed or reordered)
pub fn encode_files(t: i32, shapes: &[RawShape]) -> (Vec<u8>, Vec<u8>) {
    let mut body: Vec<u8> = vec![];
    let mut index: Vec<u8> = vec![];
    for (i, s) in shapes.iter().enumerate() {
        let mut c: Vec<u8> = vec![];
        c.extend_from_slice(&s.t.to_le_bytes());
        let pts: Vec<&RPoint> = s.parts.iter().flatten().collect();
        if family(s.t) == "point" {
            let p = pts[0];
            c.extend_from_slice(&p[0].to_le_bytes());
            c.extend_from_slice(&p[1].to_le_bytes());
            if stores_z(s.t) { c.extend_from_slice(&p[2].to_le_bytes()); }
            if stores_m(s.t) { c.extend_from_slice(&p[3].to_le_bytes()); }
        } else {
            for k in 0..4 { c.extend_from_slice(&s.bbox[k].to_le_bytes()); }
            if family(s.t) != "multipoint" {
                c.extend_from_slice(&(s.parts.len() as i32).to_le_bytes());
            }
            c.extend_from_slice(&(pts.len() as i32).to_le_bytes());
            if family(s.t) != "multipoint" {
                let mut off = 0i32;
                for p in &s.parts { c.extend_from_slice(&off.to_le_bytes()); off += p.len() as i32; }
                if s.t == 31 { for k in &s.kinds { c.extend_from_slice(&k.to_le_bytes()); } }
            }
            for p in &pts { c.extend_from_slice(&p[0].to_le_bytes()); c.extend_from_slice(&p[1].to_le_bytes()); }
            if stores_z(s.t) {
                c.extend_from_slice(&s.bbox[4].to_le_bytes()); c.extend_from_slice(&s.bbox[5].to_le_bytes());
                for p in &pts { c.extend_from_slice(&p[2].to_le_bytes()); }
            }
            if stores_m(s.t) {
                c.extend_from_slice(&s.bbox[6].to_le_bytes()); c.extend_from_slice(&s.bbox[7].to_le_bytes());
                for p in &pts { c.extend_from_slice(&p[3].to_le_bytes()); }
            }
        }
        index.extend_from_slice(&((50 + body.len() / 2) as i32).to_be_bytes());
        index.extend_from_slice(&((c.len() / 2) as i32).to_be_bytes());
        body.extend_from_slice(&(i as i32 + 1).to_be_bytes());
        body.extend_from_slice(&((c.len() / 2) as i32).to_be_bytes());
        body.extend_from_slice(&c);
    }
    let header = |words: usize| -> Vec<u8> {
        let mut h = vec![0u8; 100];
        h[0..4].copy_from_slice(&9994i32.to_be_bytes());
        h[24..28].copy_from_slice(&(words as i32).to_be_bytes());
        h[28..32].copy_from_slice(&1000i32.to_le_bytes());
        h[32..36].copy_from_slice(&t.to_le_bytes());
        h
    };
    let mut shp = header(50 + body.len() / 2);
    shp.extend_from_slice(&body);
    let mut shx = header(50 + index.len() / 2);
    shx.extend_from_slice(&index);
    (shp, shx)
}
