//! Crash states (C11): perform a workload on the real writer over logging destinations,
//! rebuild what is persisted after every (prefix of .shp operations + byte cut,
//! prefix of .shx operations + byte cut), open the real reader on it and record what
//! it returns.  The operation logs go into the trace; TLC rebuilds the cut files itself.
use crate::cmd_damage::traverse;
use crate::cmd_writer::{model_syms, random_syms, other_type, Syms};
use crate::io::*;
use crate::rng::Rng;
use crate::shapes::*;
use crate::trace::*;
use crate::values::*;
use crate::{jbytes, with_inner};
use serde_json::{json, Value};
use shapefile::*;
use std::path::PathBuf;

fn ops_json(ops: &[Op], ns: &[usize]) -> Value {
    Value::Array(
        ops.iter()
            .zip(ns.iter())
            .map(|(o, n)| match o {
                Op::Write { pos, data } => json!({"k": "w", "pos": pos, "data": jbytes(data), "to": 0, "n": n}),
                Op::Seek { to } => json!({"k": "s", "pos": 0, "data": [], "to": to, "n": n}),
                Op::Flush => json!({"k": "f", "pos": 0, "data": [], "to": 0, "n": n}),
            })
            .collect(),
    )
}

pub struct Workload {
    pub shapes: Vec<AShape>,
    pub shp_ops: Vec<Op>,
    pub shx_ops: Vec<Op>,
    pub shp_n: Vec<usize>,
    pub shx_n: Vec<usize>,
    /// crash points start after this many operations (0 unless the destinations were used before)
    pub first_cut: (usize, usize),
}

/// run a history over {a, b, F} (+ final drop) on the real writer, logging the operations.
/// `buffered`: the destinations are wrapped in std::io::BufWriter, as ShapeWriter::from_path does
/// with its files; the log then holds the operations the BufWriter really issues downstream.
pub fn perform(c: &Conc, hist: &str, syms: &Syms, buffered: bool) -> Workload {
    let shp = LogDest::new();
    let shx = LogDest::new();
    if buffered {
        // a small buffer so that it fills and spills in the middle of records as well
        let w = ShapeWriter::with_shx(std::io::BufWriter::with_capacity(64, shp.clone()), std::io::BufWriter::with_capacity(64, shx.clone()));
        perform_on(c, hist, syms, w, shp, shx)
    } else {
        let w = ShapeWriter::with_shx(shp.clone(), shx.clone());
        perform_on(c, hist, syms, w, shp, shx)
    }
}

fn perform_on<T: std::io::Write + std::io::Seek>(c: &Conc, hist: &str, syms: &Syms, writer: ShapeWriter<T>, shp: LogDest, shx: LogDest) -> Workload {
    let sa = build(c, &syms.a);
    let sb = build(c, &syms.b);
    let mut accepted: Vec<AShape> = vec![];
    let (mut shp_n, mut shx_n) = (vec![], vec![]);
    {
        let mut w = writer;
        for ch in hist.chars() {
            match ch {
                'a' | 'b' => {
                    let s = if ch == 'a' { &sa } else { &sb };
                    let r = with_inner!(s, v => w.write_shape(v), Ok(()));
                    if r.is_ok() {
                        accepted.push(abstract_shape(c, s));
                    }
                }
                'F' => {
                    let _ = w.finalize();
                }
                _ => {}
            }
            // operations issued so far belong to a state with `accepted.len()` shapes accepted
            // (a flush at the end of finalize commits exactly those)
            while shp_n.len() < shp.nops() {
                shp_n.push(accepted.len());
            }
            while shx_n.len() < shx.nops() {
                shx_n.push(accepted.len());
            }
        }
    }
    while shp_n.len() < shp.nops() {
        shp_n.push(accepted.len());
    }
    while shx_n.len() < shx.nops() {
        shx_n.push(accepted.len());
    }
    Workload { shapes: accepted, shp_ops: shp.ops(), shx_ops: shx.ops(), shp_n, shx_n, first_cut: (0, 0) }
}

/// the same on destinations that an EARLIER writer filled with a longer, valid shapefile (in-memory buffers cannot be
/// truncated): its operations come first in the logs and commit nothing of this session; crash points start once the
/// new writer has put its own header in place on both files (before that the old file is simply still there)
pub fn perform_reused(c: &Conc, hist: &str, syms: &Syms) -> Workload {
    let shp = LogDest::new();
    let shx = LogDest::new();
    {
        // the old file holds records of the SAME SIZES in the same order as the new history will write them (other
        // coordinates), and three more: whatever of it survives lies exactly where a record could start
        let swap = |a: &AShape| -> AShape {
            let mut o = a.clone();
            for part in o.parts.iter_mut() {
                for p in part.iter_mut() {
                    *p = [p[1], p[0], p[2], p[3]];
                }
            }
            o
        };
        let (a2, b2) = (build(c, &swap(&syms.a)), build(c, &swap(&syms.b)));
        let mut old = ShapeWriter::with_shx(shp.clone(), shx.clone());
        let seq: String = hist.chars().filter(|ch| *ch == 'a' || *ch == 'b').chain("aba".chars()).collect();
        for ch in seq.chars() {
            let s = if ch == 'a' { &a2 } else { &b2 };
            let _ = with_inner!(s, v => old.write_shape(v), Ok(()));
        }
    }
    let (n1, n2) = (shp.nops(), shx.nops());
    let w = ShapeWriter::with_shx(shp.clone(), shx.clone());
    let mut wl = perform_on(c, hist, syms, w, shp, shx);
    for n in wl.shp_n.iter_mut().take(n1) { *n = 0; }
    for n in wl.shx_n.iter_mut().take(n2) { *n = 0; }
    let after_header = |ops: &[Op], from: usize| -> usize {
        // (the header goes out as many small writes: the one that ends at byte 100 completes it)
        ops.iter().enumerate().skip(from).find(|(_, o)| matches!(o, Op::Write { pos, data } if *pos as usize + data.len() == 100)).map(|(i, _)| i + 1).unwrap_or(ops.len())
    };
    wl.first_cut = (after_header(&wl.shp_ops, n1), after_header(&wl.shx_ops, n2));
    wl
}

/// all (i, c): i complete operations plus c bytes of operation i+1 (c = 0: none)
pub fn cuts(ops: &[Op]) -> Vec<(usize, usize)> {
    let mut v = vec![];
    for i in 0..=ops.len() {
        v.push((i, 0));
        if let Some(Op::Write { data, .. }) = ops.get(i) {
            for c in 1..data.len() {
                v.push((i, c));
            }
        }
    }
    v
}

pub fn run(a: &Args) {
    let prop = a.get("prop", "C11");
    let out = PathBuf::from(a.get("out", "work/crash"));
    std::fs::create_dir_all(&out).unwrap();
    let seed = a.num("seed", 1);
    let chunks = a.num("chunks", 8) as usize;
    let nwork = a.num("workloads", 10) as usize;
    let full_pairs = a.num("fullpairs", 1) as usize;
    let mut r = Rng::new(seed.wrapping_mul(9001));
    // the last two cross a multiple of 256 words between two finalizes: the big-endian length field
    // of the header then changes in more than its last byte when it is rewritten
    let long1 = format!("aF{}FD", "b".repeat(30));
    let long2 = format!("{}F{}FD", "a".repeat(12), "a".repeat(40));
    let hists = ["aD", "aFD", "abD", "aFbD", "abFD", "aFbFD", "FaD", "aFbbD", "abFaFD", "aaFbD", "FaFbD", "abaD", &long1[..], &long2[..]];
    let mut traces: Vec<Trace> = vec![];
    let mut concs: Vec<Conc> = vec![];
    for ch in 0..chunks {
        let c = Conc::new(&mut r, true);
        let mut meta = c.meta();
        meta["prop"] = json!(prop);
        meta["seed"] = json!(seed);
        meta["family"] = json!("crash");
        traces.push(Trace::create(&out.join(format!("trace-{:03}.ndjson", ch)), meta));
        concs.push(c);
    }
    let mut cases = 0usize;
    let tmp = crate::cmd_codec::TmpDir::new(&out, "crash");
    for wi in 0..nwork {
        let i = wi % chunks;
        let c = &concs[i];
        let t = ALL_TYPES[(wi * 3 + seed as usize) % 13];
        // (the two long workloads are always part of the run, on small point types)
        let hist = if wi == 1 { hists[12] } else if wi == 4 { hists[13] } else { hists[(wi + seed as usize) % 12] };
        let t = if wi == 1 { 1 } else if wi == 4 { 21 } else { t };
        let syms = if wi % 2 == 0 { model_syms(t, other_type(t, 0)) } else { random_syms(&mut r, t, other_type(t, 0)) };
        let buffered = wi % 3 == 2;
        // the last two workloads run on destinations an earlier writer had filled
        let reused = wi + 2 >= nwork && nwork >= 4;
        let w = if reused { perform_reused(c, hist, &syms) } else { perform(c, hist, &syms, buffered) };
        let n = w.shapes.len();
        traces[i].run(json!({"ev": "workload", "kind": "crash", "t": t, "hist": hist, "buffered": buffered && !reused, "reused": reused,
            "shapes": w.shapes.iter().map(|s| s.to_json()).collect::<Vec<_>>(),
            "shpOps": ops_json(&w.shp_ops, &w.shp_n), "shxOps": ops_json(&w.shx_ops, &w.shx_n)}));
        let sc: Vec<(usize, usize)> = cuts(&w.shp_ops).into_iter().filter(|x| x.0 >= w.first_cut.0).collect();
        let xc: Vec<(usize, usize)> = cuts(&w.shx_ops).into_iter().filter(|x| x.0 >= w.first_cut.1).collect();
        let full = wi < full_pairs;
        let mut emit = |tr: &mut Trace, (si, sc_): (usize, usize), (xi, xc_): (usize, usize), with_idx: bool, random: bool| {
            let sb = replay_prefix(&w.shp_ops, si, sc_);
            let xb = replay_prefix(&w.shx_ops, xi, xc_);
            let res = traverse(c, LogSource::new(sb.clone()), if with_idx { Some(LogSource::new(xb.clone())) } else { None }, t, random, n);
            // the same persisted bytes as files, opened by path (from_path picks the .shx up by itself)
            let p = crate::cmd_codec::path_variant(&tmp.0, "k", si + xi);
            let _ = std::fs::write(&p, &sb);
            if with_idx { let _ = std::fs::write(p.with_extension("shx"), &xb); } else { let _ = std::fs::remove_file(p.with_extension("shx")); }
            let by_path = crate::cmd_codec::read_path_route(c, &p, t, true, random, n, false);
            let _ = std::fs::remove_file(&p);
            let _ = std::fs::remove_file(p.with_extension("shx"));
            tr.emit(json!({"ev": "crashread", "i": si, "c": sc_, "j": xi, "d": xc_, "withIdx": with_idx, "random": random,
                           "shpLen": sb.len(), "shxLen": xb.len(), "res": res, "byPath": by_path}));
        };
        for &s in &sc {
            if reused {
                // On destinations that still hold an older file only cuts at operation boundaries of the .shp, read
                // WITHOUT the index, are examined: a torn length field, or an index that is ahead of the .shp, can
                // make any reader find the old records where new ones would be -- nothing a writer over a
                // destination it cannot truncate could prevent.
                if s.1 == 0 {
                    emit(&mut traces[i], s, (0, 0), false, false);
                    cases += 1;
                }
                continue;
            }
            // without the index the .shx plays no part
            emit(&mut traces[i], s, (0, 0), false, false);
            cases += 1;
            if full {
                for &x in &xc {
                    emit(&mut traces[i], s, x, true, false);
                    cases += 1;
                }
            } else {
                // the complete index, the index cut at a random point, twice
                emit(&mut traces[i], s, (w.shx_ops.len(), 0), true, false);
                let x1 = *r.pick(&xc);
                emit(&mut traces[i], s, x1, true, r.chance(1, 3));
                let x2 = *r.pick(&xc);
                emit(&mut traces[i], s, x2, true, false);
                cases += 3;
            }
        }
        if !full && !reused {
            for &x in &xc {
                emit(&mut traces[i], (w.shp_ops.len(), 0), x, true, false);
                let s1 = *r.pick(&sc);
                emit(&mut traces[i], s1, x, true, r.chance(1, 3));
                cases += 2;
            }
        }
    }
    // a crash right after the writer was opened BY PATH over an older, longer, valid shapefile (and after a few
    // unflushed writes): nothing of the old file may be read as if it belonged to the new one
    for wi in 0..6usize {
        let i = wi % chunks;
        let c = &concs[i];
        let t = ALL_TYPES[(wi * 5 + seed as usize) % 13];
        let syms = random_syms(&mut r, t, other_type(t, 0));
        let (sa, sb) = (build(c, &syms.a), build(c, &syms.b));
        let p = crate::cmd_codec::path_variant(&tmp.0, "old", wi);
        let res = guarded(|| {
            {
                let mut w = ShapeWriter::from_path(&p).unwrap();
                for _ in 0..4 {
                    crate::with_inner!(&sb, v => w.write_shape(v).unwrap(), ());
                }
            }
            let old_len = std::fs::metadata(&p).map(|m| m.len()).unwrap_or(0);
            let mut w = ShapeWriter::from_path(&p).unwrap();
            for _ in 0..wi % 3 {
                crate::with_inner!(&sa, v => w.write_shape(v).unwrap(), ());
            }
            std::mem::forget(w);          // the process dies here: nothing buffered is flushed
            old_len
        });
        let by_path = crate::cmd_codec::read_path_route(c, &p, t, true, false, 4, false);
        let _ = std::fs::remove_file(&p);
        let _ = std::fs::remove_file(p.with_extension("shx"));
        traces[i].run(json!({"ev": "crash0", "t": t, "writes": wi % 3, "oldLen": res.clone().unwrap_or(0), "panic": res.is_err(), "res": by_path}));
        cases += 1;
    }
    let mut files = vec![];
    let mut lines = 0;
    for t in traces {
        let (p, l, _) = t.finish();
        lines += l;
        files.push(p.to_string_lossy().to_string());
    }
    println!("{}", json!({"cases": cases, "distinct": cases, "lines": lines, "files": files, "workloads": nwork}));
}
