//! Reader histories (C15, C04 reader side): every history over
//! {iterate j items, read_nth(i), seek(k), shape_count} on the real ShapeReader and the
//! complete Reader; return values are abstracted to record / row indices.
use crate::cmd_codec::write_all_shapes;
use crate::gen::*;
use crate::io::*;
use crate::rng::Rng;
use crate::shapes::*;
use crate::trace::*;
use crate::values::*;
use crate::with_inner;
use serde_json::{json, Value};
use shapefile::dbase;
use shapefile::*;
use std::convert::TryInto;
use std::io::Cursor;
use std::path::PathBuf;

pub struct TestFile {
    pub t: i32,
    pub shapes: Vec<AShape>,
    pub shp: Vec<u8>,
    pub shx: Vec<u8>,
    pub dbf: Vec<u8>,
}

pub fn idx_record(i: usize) -> dbase::Record {
    let mut r = dbase::Record::default();
    r.insert("IDX".to_string(), dbase::FieldValue::Numeric(Some(i as f64)));
    r.insert("NAME".to_string(), dbase::FieldValue::Character(Some(format!("row{}", i))));
    r
}

pub fn table_builder() -> dbase::TableWriterBuilder {
    dbase::TableWriterBuilder::new()
        .add_numeric_field("IDX".try_into().unwrap(), 10, 0)
        .add_character_field("NAME".try_into().unwrap(), 12)
}

pub fn row_index(r: &dbase::Record) -> i64 {
    match r.get("IDX") {
        Some(dbase::FieldValue::Numeric(Some(v))) => *v as i64,
        _ => -9,
    }
}

/// n distinct shapes of type t; pairwise different sizes unless `equal`
pub fn distinct_shapes(r: &mut Rng, t: i32, n: usize, equal: bool) -> Vec<AShape> {
    let mut out: Vec<AShape> = vec![];
    let mut guard = 0;
    while out.len() < n {
        guard += 1;
        assert!(guard < 10000);
        let k = if equal { 2 } else { 1 + out.len() };
        let mut s = match family(t) {
            "point" => gen_shape_with(r, t, &GenCfg::small(), true),
            "multipoint" => {
                let g = GenCfg::small();
                AShape { t, parts: vec![(0..k + 1).map(|_| gen_point_nonan(r, t, &g)).collect()], kinds: vec![], bbox: [0; 8] }
            }
            _ => {
                let g = GenCfg::small();
                let parts: Vec<Vec<APoint>> = (0..k).map(|_| (0..3).map(|_| gen_point_nonan(r, t, &g)).collect()).collect();
                let kinds = match family(t) {
                    "polygon" => vec![0; k],
                    "multipatch" => vec![0; k],
                    _ => vec![],
                };
                AShape { t, parts, kinds, bbox: [0; 8] }
            }
        };
        s.bbox = [0; 8];
        let key = |x: &AShape| -> Vec<Vec<[i32; 3]>> { x.parts.iter().map(|p| p.iter().map(|q| [q[0], q[1], q[2]]).collect()).collect() };
        if !out.iter().any(|o| key(o) == key(&s)) {
            out.push(s);
        }
    }
    out
}

pub fn make_file(c: &Conc, r: &mut Rng, t: i32, n: usize, equal: bool) -> TestFile {
    make_file_in(c, r, t, n, equal, false)
}

/// `reused`: the three destinations already hold longer content (a reused buffer cannot be truncated by
/// a Write + Seek writer; what lies beyond the declared lengths must simply not matter to a reader)
pub fn make_file_in(c: &Conc, r: &mut Rng, t: i32, n: usize, equal: bool, reused: bool) -> TestFile {
    let input = distinct_shapes(r, t, n, equal);
    let built: Vec<Shape> = input.iter().map(|a| build(c, a)).collect();
    let shapes: Vec<AShape> = built.iter().map(|s| abstract_shape(c, s)).collect();
    let (shp, shx, dbf) = if reused { (LogDest::prefilled(6000), LogDest::prefilled(3000), LogDest::new()) } else { (LogDest::new(), LogDest::new(), LogDest::new()) };
    {
        let sw = ShapeWriter::with_shx(shp.clone(), shx.clone());
        let tw = table_builder().build_with_dest(dbf.clone());
        let mut w = Writer::new(sw, tw);
        for (i, s) in built.iter().enumerate() {
            with_inner!(s, x => w.write_shape_and_record(x, &idx_record(i)).unwrap(), ());
        }
    }
    let _ = write_all_shapes::<Cursor<Vec<u8>>>;
    TestFile { t, shapes, shp: shp.bytes(), shx: shx.bytes(), dbf: dbf.bytes() }
}

fn shape_index(c: &Conc, f: &TestFile, s: &Shape) -> i64 {
    // identify the record by its X/Y/Z geometry (measures are normalised on reading; the
    // records of a test file differ pairwise in their X/Y values)
    let a = abstract_shape(c, s);
    let key = |x: &AShape| -> Vec<Vec<[i32; 3]>> { x.parts.iter().map(|p| p.iter().map(|q| [q[0], q[1], q[2]]).collect()).collect() };
    let ka = key(&a);
    f.shapes.iter().position(|o| o.t == a.t && key(o) == ka).map(|p| p as i64).unwrap_or(-9)
}

#[derive(Clone, Debug)]
pub enum Call {
    Iter(usize),
    Nth(usize),
    /// a typed random access naming ANOTHER type than the file's: it fails with a mismatch
    NthWrong(usize),
    Seek(usize),
    Count,
}

pub fn parse_hist(h: &str) -> Vec<Call> {
    h.split_whitespace()
        .map(|tok| {
            let (k, v) = tok.split_at(1);
            let n: usize = v.parse().unwrap();
            match k {
                "i" => Call::Iter(n),
                "n" => Call::Nth(n),
                "w" => Call::NthWrong(n),
                "s" => Call::Seek(n),
                "c" => Call::Count,
                _ => panic!("bad call {}", tok),
            }
        })
        .collect()
}

fn errcode(e: &Error) -> i64 {
    match e {
        Error::MissingIndexFile => -2,
        Error::MismatchShapeType { .. } => -4,
        _ => -3,
    }
}

pub fn run_history(tr: &mut Trace, c: &Conc, f: &TestFile, with_idx: bool, complete: bool, equal: bool, calls: &[Call], hist: &str, prop: &str) {
    run_history_at(tr, c, f, with_idx, complete, equal, calls, hist, prop, None)
}

/// `by_path`: the files are written to that directory and opened with the path constructors
/// (BufReader<File> sources; the .shx is simply absent when `with_idx` is false)
#[allow(clippy::too_many_arguments)]
pub fn run_history_at(tr: &mut Trace, c: &Conc, f: &TestFile, with_idx: bool, complete: bool, equal: bool, calls: &[Call], hist: &str, prop: &str, by_path: Option<&std::path::Path>) {
    // (the complete Reader has no random access: failing typed accesses are left out of its histories)
    let filtered: Vec<Call> = calls.iter().filter(|c| !(complete && matches!(c, Call::NthWrong(_)))).cloned().collect();
    let calls = &filtered[..];
    let n = f.shapes.len();
    tr.run(json!({"ev": "reset", "kind": "reader", "n": n, "withIdx": with_idx, "complete": complete,
                  "equalSizes": equal, "t": f.t, "hist": hist, "prop": prop, "byPath": by_path.is_some()}));
    if let Some(dir) = by_path {
        let p = crate::cmd_codec::path_variant(dir, "r", hist.len() + n);
        std::fs::write(&p, &f.shp).unwrap();
        std::fs::write(p.with_extension("dbf"), &f.dbf).unwrap();
        if with_idx {
            std::fs::write(p.with_extension("shx"), &f.shx).unwrap();
            // file times say nothing about which index belongs to a .shp (copies, restores, touched files): every
            // other pair gets an index that is an hour OLDER than its .shp, the others one that is an hour younger
            if let Ok(fh) = std::fs::OpenOptions::new().write(true).open(p.with_extension("shx")) {
                let hour = std::time::Duration::from_secs(3600);
                let now = std::time::SystemTime::now();
                let _ = fh.set_modified(if (hist.len() + n) % 2 == 0 { now - hour } else { now + hour });
            }
        } else {
            let _ = std::fs::remove_file(p.with_extension("shx"));
        }
        if complete {
            match Reader::from_path(&p) {
                Ok(r) => drive_complete(tr, c, f, r, calls),
                Err(e) => tr.emit(json!({"ev": "openfail", "err": err_json(&e)})),
            }
        } else {
            match ShapeReader::from_path(&p) {
                Ok(r) => drive_shapes(tr, c, f, r, calls),
                Err(e) => tr.emit(json!({"ev": "openfail", "err": err_json(&e)})),
            }
        }
        return;
    }
    let sr = if with_idx {
        ShapeReader::with_shx(Cursor::new(f.shp.clone()), Cursor::new(f.shx.clone()))
    } else {
        ShapeReader::new(Cursor::new(f.shp.clone()))
    };
    let sr = match sr {
        Ok(r) => r,
        Err(e) => {
            tr.emit(json!({"ev": "openfail", "err": err_json(&e)}));
            return;
        }
    };
    if !complete {
        drive_shapes(tr, c, f, sr, calls);
    } else {
        let dr = match dbase::Reader::new(Cursor::new(f.dbf.clone())) {
            Ok(d) => d,
            Err(e) => {
                tr.emit(json!({"ev": "openfail", "err": format!("{:?}", e)}));
                return;
            }
        };
        drive_complete(tr, c, f, Reader::new(sr, dr), calls);
    }
}

fn drive_shapes<T: std::io::Read + std::io::Seek>(tr: &mut Trace, c: &Conc, f: &TestFile, mut rdr: ShapeReader<T>, calls: &[Call]) {
    // every other history goes through the typed entry points (iter_shapes_as::<S>, read_nth_shape_as::<S>)
    let typed = calls.len() % 2 == 1 && f.t != 0;
    if typed {
        return crate::for_type!(f.t, S, { drive_shapes_typed::<T, S>(tr, c, f, rdr, calls) });
    }
    for call in calls {
        let ev = guarded(|| match call {
            Call::Iter(lim) => {
                let mut items = vec![];
                let mut hints = vec![];
                let mut ended = false;
                let mut err = String::new();
                let mut it = rdr.iter_shapes();
                for _ in 0..*lim {
                    let (lo, hi) = it.size_hint();
                    hints.push(json!([lo, hi.map(|x| x as i64).unwrap_or(-1)]));
                    match it.next() {
                        Some(Ok(s)) => items.push(shape_index(c, f, &s)),
                        Some(Err(e)) => {
                            err = err_json(&e)["err"].as_str().unwrap().to_string();
                            break;
                        }
                        None => {
                            ended = true;
                            break;
                        }
                    }
                }
                json!({"ev": "iter", "lim": lim, "items": items, "rows": items, "ended": ended, "err": err, "hints": hints})
            }
            Call::Nth(i) => {
                let res = match rdr.read_nth_shape(*i) {
                    None => -1,
                    Some(Ok(s)) => shape_index(c, f, &s),
                    Some(Err(e)) => errcode(&e),
                };
                json!({"ev": "nth", "i": i, "res": res})
            }
            Call::NthWrong(i) => {
                // Point for every file type but Point itself (then PolylineZ)
                let res = if f.t != 1 {
                    match rdr.read_nth_shape_as::<shapefile::Point>(*i) { None => -1, Some(Ok(_)) => -5, Some(Err(e)) => errcode(&e) }
                } else {
                    match rdr.read_nth_shape_as::<shapefile::PolylineZ>(*i) { None => -1, Some(Ok(_)) => -5, Some(Err(e)) => errcode(&e) }
                };
                json!({"ev": "nthfail", "i": i, "res": res})
            }
            Call::Seek(k) => {
                let res = match rdr.seek(*k) {
                    Ok(()) => 0,
                    Err(e) => errcode(&e),
                };
                json!({"ev": "seek", "k": k, "res": res})
            }
            Call::Count => {
                let res = match rdr.shape_count() {
                    Ok(n) => n as i64,
                    Err(e) => errcode(&e),
                };
                json!({"ev": "count", "res": res})
            }
        });
        match ev {
            Ok(e) => tr.emit(e),
            Err(p) => {
                tr.emit(json!({"ev": "panic", "msg": p}));
                return;
            }
        }
    }
}

fn drive_shapes_typed<T: std::io::Read + std::io::Seek, S: shapefile::ReadableShape>(tr: &mut Trace, c: &Conc, f: &TestFile, mut rdr: ShapeReader<T>, calls: &[Call])
where
    Shape: From<S>,
{
    for call in calls {
        let ev = guarded(|| match call {
            Call::Iter(lim) => {
                let mut items = vec![];
                let mut hints = vec![];
                let mut ended = false;
                let mut err = String::new();
                let mut it = rdr.iter_shapes_as::<S>();
                for _ in 0..*lim {
                    let (lo, hi) = it.size_hint();
                    hints.push(json!([lo, hi.map(|x| x as i64).unwrap_or(-1)]));
                    match it.next() {
                        Some(Ok(s)) => items.push(shape_index(c, f, &Shape::from(s))),
                        Some(Err(e)) => {
                            err = err_json(&e)["err"].as_str().unwrap().to_string();
                            break;
                        }
                        None => {
                            ended = true;
                            break;
                        }
                    }
                }
                json!({"ev": "iter", "lim": lim, "items": items, "rows": items, "ended": ended, "err": err, "hints": hints})
            }
            Call::Nth(i) => {
                let res = match rdr.read_nth_shape_as::<S>(*i) {
                    None => -1,
                    Some(Ok(s)) => shape_index(c, f, &Shape::from(s)),
                    Some(Err(e)) => errcode(&e),
                };
                json!({"ev": "nth", "i": i, "res": res})
            }
            Call::NthWrong(i) => {
                // Point for every file type but Point itself (then PolylineZ)
                let res = if f.t != 1 {
                    match rdr.read_nth_shape_as::<shapefile::Point>(*i) { None => -1, Some(Ok(_)) => -5, Some(Err(e)) => errcode(&e) }
                } else {
                    match rdr.read_nth_shape_as::<shapefile::PolylineZ>(*i) { None => -1, Some(Ok(_)) => -5, Some(Err(e)) => errcode(&e) }
                };
                json!({"ev": "nthfail", "i": i, "res": res})
            }
            Call::Seek(k) => {
                let res = match rdr.seek(*k) {
                    Ok(()) => 0,
                    Err(e) => errcode(&e),
                };
                json!({"ev": "seek", "k": k, "res": res})
            }
            Call::Count => {
                let res = match rdr.shape_count() {
                    Ok(n) => n as i64,
                    Err(e) => errcode(&e),
                };
                json!({"ev": "count", "res": res})
            }
        });
        match ev {
            Ok(e) => tr.emit(e),
            Err(p) => {
                tr.emit(json!({"ev": "panic", "msg": p}));
                return;
            }
        }
    }
}

fn drive_complete<T: std::io::Read + std::io::Seek, D: std::io::Read + std::io::Seek>(tr: &mut Trace, c: &Conc, f: &TestFile, mut rdr: Reader<T, D>, calls: &[Call]) {
    let n = f.shapes.len();
    for call in calls {
        let ev = guarded(|| match call {
            Call::Iter(lim) => {
                let mut items = vec![];
                let mut rows = vec![];
                let mut ended = false;
                let mut err = String::new();
                let mut it = rdr.iter_shapes_and_records();
                for _ in 0..*lim {
                    match it.next() {
                        Some(Ok((s, r))) => {
                            items.push(shape_index(c, f, &s));
                            rows.push(row_index(&r));
                        }
                        Some(Err(e)) => {
                            err = err_json(&e)["err"].as_str().unwrap().to_string();
                            break;
                        }
                        None => {
                            ended = true;
                            break;
                        }
                    }
                }
                json!({"ev": "iter", "lim": lim, "items": items, "rows": rows, "ended": ended, "err": err, "hints": []})
            }
            // the complete Reader has no random access: a full read() stands in for it
            Call::Nth(_) => {
                let (items, rows, err) = match rdr.read() {
                    Ok(v) => (
                        v.iter().map(|(s, _)| shape_index(c, f, s)).collect::<Vec<_>>(),
                        v.iter().map(|(_, r)| row_index(r)).collect::<Vec<_>>(),
                        String::new(),
                    ),
                    Err(e) => (vec![], vec![], err_json(&e)["err"].as_str().unwrap().to_string()),
                };
                json!({"ev": "iter", "lim": n + 1, "items": items, "rows": rows, "ended": err.is_empty(), "err": err, "hints": []})
            }
            Call::NthWrong(i) => {
                // the complete Reader has no random access: a typed read naming another type fails instead
                let res = if f.t != 1 {
                    match rdr.read_as::<shapefile::Point, dbase::Record>() { Ok(_) => -5, Err(e) => errcode(&e) }
                } else {
                    match rdr.read_as::<shapefile::PolylineZ, dbase::Record>() { Ok(_) => -5, Err(e) => errcode(&e) }
                };
                // (an empty file has nothing to mismatch on)
                let res = if n == 0 && res == -5 { -1 } else if *i >= n && res == -4 { -1 } else { res };
                json!({"ev": "nthfail", "i": i, "res": res})
            }
            Call::Seek(k) => {
                let res = match rdr.seek(*k) {
                    Ok(()) => 0,
                    Err(e) => errcode(&e),
                };
                json!({"ev": "seek", "k": k, "res": res})
            }
            Call::Count => {
                let res = match rdr.shape_count() {
                    Ok(n) => n as i64,
                    Err(e) => errcode(&e),
                };
                json!({"ev": "count", "res": res})
            }
        });
        match ev {
            Ok(e) => tr.emit(e),
            Err(p) => {
                tr.emit(json!({"ev": "panic", "msg": p}));
                return;
            }
        }
    }
}

fn all_calls(n: usize) -> Vec<Call> {
    let mut v = vec![Call::Iter(0), Call::Iter(1), Call::Iter(2), Call::Iter(n + 1)];
    for i in 0..=n {
        v.push(Call::Nth(i));
    }
    for i in 0..n.min(3) {
        v.push(Call::NthWrong(i));
    }
    for k in 0..=n {
        v.push(Call::Seek(k));
    }
    v.push(Call::Count);
    v
}

fn call_str(c: &Call) -> String {
    match c {
        Call::Iter(j) => format!("i{}", j),
        Call::Nth(i) => format!("n{}", i),
        Call::NthWrong(i) => format!("w{}", i),
        Call::Seek(k) => format!("s{}", k),
        Call::Count => "c0".to_string(),
    }
}

pub fn run(a: &Args) {
    let prop = a.get("prop", "all");
    let out = PathBuf::from(a.get("out", "work/reader"));
    std::fs::create_dir_all(&out).unwrap();
    let seed = a.num("seed", 1);
    let chunks = a.num("chunks", 4) as usize;
    let nrecs: Vec<usize> = a.get("nrecs", &a.get("nrec", "3")).split(',').map(|x| x.parse().unwrap()).collect();
    let maxlen = a.num("maxlen", 2) as usize;
    let nrandom = a.num("random", 50) as usize;
    let ntypes = a.num("types", 3) as usize;
    let mut model_hists: Vec<(bool, String)> = vec![];
    if let Some(f) = a.0.get("histfile") {
        for line in std::fs::read_to_string(f).unwrap().lines() {
            if let Some((w, h)) = line.split_once(' ') {
                model_hists.push((w == "1", h.to_string()));
            }
        }
    }
    let tmp = crate::cmd_codec::TmpDir::new(&out, "reader");
    let mut r = Rng::new(seed.wrapping_mul(31337));
    let mut traces: Vec<Trace> = vec![];
    let mut concs: Vec<Conc> = vec![];
    for ch in 0..chunks {
        let c = Conc::new(&mut r, true);
        let mut meta = c.meta();
        meta["prop"] = json!(prop);
        meta["seed"] = json!(seed);
        meta["family"] = json!("reader");
        traces.push(Trace::create(&out.join(format!("trace-{:03}.ndjson", ch)), meta));
        concs.push(c);
    }
    let mut k = 0usize;
    let mut distinct = std::collections::HashSet::new();
    // types rotate with the seed
    let types: Vec<i32> = (0..ntypes).map(|i| ALL_TYPES[(i * 5 + seed as usize) % 13]).collect();
    for &t in &types {
      for &nrec in &nrecs {
        for &equal in &[false, true] {
            if equal && nrec < 2 {
                continue;
            }
            // one file per chunk (each chunk has its own concretisation)
            // (every other file is written into reused, longer buffers)
            let files: Vec<TestFile> = (0..chunks).map(|i| make_file_in(&concs[i], &mut r, t, nrec, equal, i % 2 == 1)).collect();
            let mut hists: Vec<(Option<bool>, String)> = vec![];
            // 1. the histories TLC explored
            if nrec == 3 {
                for (w, h) in &model_hists {
                    hists.push((Some(*w), h.clone()));
                }
            }
            // 2. all histories up to maxlen enumerated here
            let calls = all_calls(nrec);
            let mut cur: Vec<Vec<Call>> = vec![vec![]];
            for _ in 0..maxlen {
                let mut nxt = vec![];
                for h in &cur {
                    for cl in &calls {
                        let mut hh = h.clone();
                        hh.push(cl.clone());
                        nxt.push(hh);
                    }
                }
                for h in &nxt {
                    hists.push((None, h.iter().map(call_str).collect::<Vec<_>>().join(" ")));
                }
                cur = nxt;
            }
            // 3. long random histories
            for _ in 0..nrandom {
                let len = 4 + r.below(9);
                let h: Vec<String> = (0..len).map(|_| call_str(r.pick(&calls))).collect();
                hists.push((None, h.join(" ")));
            }
            for (w, h) in &hists {
                let calls = parse_hist(h);
                for &with_idx in &[true, false] {
                    if let Some(x) = w {
                        if *x != with_idx {
                            continue;
                        }
                    }
                    for &complete in &[false, true] {
                        let i = k % chunks;
                        k += 1;
                        distinct.insert((t, nrec, equal, with_idx, complete, h.clone()));
                        run_history(&mut traces[i], &concs[i], &files[i], with_idx, complete, equal, &calls, h, &prop);
                        if calls.len() <= 1 || k % 17 == 0 {
                            k += 1;
                            distinct.insert((t, nrec, equal, with_idx, complete, format!("path:{}", h)));
                            run_history_at(&mut traces[i], &concs[i], &files[i], with_idx, complete, equal, &calls, h, &prop, Some(&tmp.0));
                        }
                    }
                }
            }
        }
      }
    }
    // a file with far more records than any internal cap or buffer (C04: "every n")
    let bign = a.num("bign", 1500) as usize;
    if bign > 0 {
        let f = make_file(&concs[0], &mut r, 11, bign, false);
        for h in ["c0", "i1", &format!("n{}", bign - 1)[..], &format!("n{}", bign)[..], "n1023", "n1024", "n1025",
                  &format!("i{}", bign + 1)[..], &format!("s1030 i{}", bign + 1)[..], &format!("i1030 c0 n{}", bign - 1)[..]] {
            let calls = parse_hist(h);
            for &with_idx in &[true, false] {
                for &complete in &[false, true] {
                    k += 1;
                    distinct.insert((11, bign, false, with_idx, complete, h.to_string()));
                    run_history(&mut traces[0], &concs[0], &f, with_idx, complete, false, &calls, h, &prop);
                }
            }
        }
    }
    let mut files = vec![];
    let mut lines = 0;
    for t in traces {
        let (p, l, _) = t.finish();
        lines += l;
        files.push(p.to_string_lossy().to_string());
    }
    println!("{}", json!({"cases": k, "distinct": distinct.len(), "lines": lines, "files": files,
                          "model_histories": model_hists.len()}));
}
