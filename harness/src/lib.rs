//! Conformance harness binding the TLA+ specification in /verif/spec to shapefile-rs.
//!
//! Nothing here knows the ESRI layout: the harness drives the public API, records
//! what it observed (bytes, values abstracted to ids, results) as ndjson, and TLC
//! decides.  The only float-aware pieces are `values::Conc` (id <-> f64 bits).
pub mod alloc;
pub mod cmd_arbitrary;
pub mod cmd_codec;
pub mod cmd_geo;
pub mod cmd_complete;
pub mod cmd_rings;
pub mod cmd_surface;
pub mod cmd_types;
pub mod cmd_foreign;
pub mod cmd_faults;
pub mod cmd_crash;
pub mod cmd_damage;
pub mod cmd_reader;
pub mod cmd_writer;
pub mod gen;
pub mod io;
pub mod rng;
pub mod raw;
pub mod shapes;
pub mod trace;
pub mod values;

pub use serde_json::{json, Value};

/// bytes -> JSON array of ints
pub fn jbytes(b: &[u8]) -> Value {
    Value::Array(b.iter().map(|x| Value::from(*x as u64)).collect())
}
