//! C16: polygon and multipatch constructors close and orient rings, losing no vertex.
use crate::rng::Rng;
use crate::shapes::*;
use crate::trace::*;
use crate::values::*;
use serde_json::{json, Value};
use shapefile::record::PolygonRing;
use shapefile::*;
use std::path::PathBuf;

type AP = APoint;

fn pj(p: &[AP]) -> Value {
    json!(p.iter().map(|q| q.to_vec()).collect::<Vec<_>>())
}

fn mk_ring<P>(role: i32, pts: Vec<P>) -> PolygonRing<P> {
    if role == 0 { PolygonRing::Outer(pts) } else { PolygonRing::Inner(pts) }
}

/// rings out of a constructed polygon value, abstracted: [(role, pts)]
fn rings_of(c: &Conc, s: &Shape) -> Vec<(i32, Vec<AP>)> {
    let a = abstract_shape(c, s);
    a.kinds.iter().copied().zip(a.parts.iter().cloned()).collect()
}

fn rings_json(r: &[(i32, Vec<AP>)]) -> Value {
    json!(r.iter().map(|(k, p)| json!({"role": k, "pts": pj(p)})).collect::<Vec<_>>())
}

/// build a polygon of point type `pt` (5, 25, 15) from declared rings through constructor `ctor`
fn build_polygon(c: &Conc, pt: i32, ctor: &str, rings: &[(i32, Vec<AP>)]) -> Result<Shape, String> {
    let a = AShape { t: pt, parts: rings.iter().map(|r| r.1.clone()).collect(), kinds: rings.iter().map(|r| r.0).collect(), bbox: [0; 8] };
    guarded(|| match ctor {
        "with_rings" => build(c, &a),
        "new" => {
            // GenericPolygon::new takes exactly one ring
            let r = &rings[0];
            match pt {
                5 => Shape::Polygon(Polygon::new(mk_ring(r.0, r.1.iter().map(|p| Point::new(c.x(p[0]), c.x(p[1]))).collect()))),
                25 => Shape::PolygonM(PolygonM::new(mk_ring(r.0, r.1.iter().map(|p| PointM::new(c.x(p[0]), c.x(p[1]), c.z(p[3]))).collect()))),
                _ => Shape::PolygonZ(PolygonZ::new(mk_ring(r.0, r.1.iter().map(|p| PointZ::new(c.x(p[0]), c.x(p[1]), c.z(p[2]), c.z(p[3]))).collect()))),
            }
        }
        "macro" => {
            // polygon! with a fixed arity of three vertices per ring, one or two rings
            let v = |r: &(i32, Vec<AP>), i: usize| r.1[i];
            let r0 = &rings[0];
            let (a0, a1, a2) = (v(r0, 0), v(r0, 1), v(r0, 2));
            macro_rules! one {
                ($role:ident) => {
                    match pt {
                        5 => Shape::Polygon(shapefile::polygon! { $role((c.x(a0[0]), c.x(a0[1])), (c.x(a1[0]), c.x(a1[1])), (c.x(a2[0]), c.x(a2[1]))) }),
                        25 => Shape::PolygonM(shapefile::polygon! { $role((c.x(a0[0]), c.x(a0[1]), c.z(a0[3])), (c.x(a1[0]), c.x(a1[1]), c.z(a1[3])), (c.x(a2[0]), c.x(a2[1]), c.z(a2[3]))) }),
                        _ => Shape::PolygonZ(shapefile::polygon! { $role((c.x(a0[0]), c.x(a0[1]), c.z(a0[2]), c.z(a0[3])), (c.x(a1[0]), c.x(a1[1]), c.z(a1[2]), c.z(a1[3])), (c.x(a2[0]), c.x(a2[1]), c.z(a2[2]), c.z(a2[3]))) }),
                    }
                };
            }
            if r0.0 == 0 { one!(Outer) } else { one!(Inner) }
        }
        "macro4" => {
            // polygon! in its {x: .., y: ..} form, four vertices per ring, two rings (outer-declared, inner-declared)
            let p = |r: &(i32, Vec<AP>), i: usize| r.1[i];
            let (r0, r1) = (&rings[0], &rings[1]);
            let (a, b, d, e) = (p(r0, 0), p(r0, 1), p(r0, 2), p(r0, 3));
            let (f, g, h, i) = (p(r1, 0), p(r1, 1), p(r1, 2), p(r1, 3));
            match pt {
                5 => Shape::Polygon(shapefile::polygon! {
                    Outer({x: c.x(a[0]), y: c.x(a[1])}, {x: c.x(b[0]), y: c.x(b[1])}, {x: c.x(d[0]), y: c.x(d[1])}, {x: c.x(e[0]), y: c.x(e[1])}),
                    Inner({x: c.x(f[0]), y: c.x(f[1])}, {x: c.x(g[0]), y: c.x(g[1])}, {x: c.x(h[0]), y: c.x(h[1])}, {x: c.x(i[0]), y: c.x(i[1])})
                }),
                25 => Shape::PolygonM(shapefile::polygon! {
                    Outer({x: c.x(a[0]), y: c.x(a[1]), m: c.z(a[3])}, {x: c.x(b[0]), y: c.x(b[1]), m: c.z(b[3])}, {x: c.x(d[0]), y: c.x(d[1]), m: c.z(d[3])}, {x: c.x(e[0]), y: c.x(e[1]), m: c.z(e[3])}),
                    Inner({x: c.x(f[0]), y: c.x(f[1]), m: c.z(f[3])}, {x: c.x(g[0]), y: c.x(g[1]), m: c.z(g[3])}, {x: c.x(h[0]), y: c.x(h[1]), m: c.z(h[3])}, {x: c.x(i[0]), y: c.x(i[1]), m: c.z(i[3])})
                }),
                _ => Shape::PolygonZ(shapefile::polygon! {
                    Outer({x: c.x(a[0]), y: c.x(a[1]), z: c.z(a[2]), m: c.z(a[3])}, {x: c.x(b[0]), y: c.x(b[1]), z: c.z(b[2]), m: c.z(b[3])}, {x: c.x(d[0]), y: c.x(d[1]), z: c.z(d[2]), m: c.z(d[3])}, {x: c.x(e[0]), y: c.x(e[1]), z: c.z(e[2]), m: c.z(e[3])}),
                    Inner({x: c.x(f[0]), y: c.x(f[1]), z: c.z(f[2]), m: c.z(f[3])}, {x: c.x(g[0]), y: c.x(g[1]), z: c.z(g[2]), m: c.z(g[3])}, {x: c.x(h[0]), y: c.x(h[1]), z: c.z(h[2]), m: c.z(h[3])}, {x: c.x(i[0]), y: c.x(i[1]), z: c.z(i[2]), m: c.z(i[3])})
                }),
            }
        }
        _ => panic!("ctor"),
    })
}

fn ring_event(tr: &mut Trace, c: &Conc, pt: i32, ctor: &str, rings: &[(i32, Vec<AP>)]) {
    pending(&json!({"call": "polygon constructor", "pt": pt, "ctor": ctor, "inputs": rings_json(rings)}));
    let built = build_polygon(c, pt, ctor, rings);
    pending_done();
    match built {
        Err(p) => tr.emit(json!({"ev": "rings", "pt": pt, "ctor": ctor, "inputs": rings_json(rings), "panic": p, "outputs": [], "rebuilt": []})),
        Ok(s) => {
            let outs = rings_of(c, &s);
            // rebuilding a polygon from its own rings
            let re = build_polygon(c, pt, "with_rings", &outs).map(|s2| rings_of(c, &s2)).unwrap_or_default();
            tr.emit(json!({"ev": "rings", "pt": pt, "ctor": ctor, "inputs": rings_json(rings), "panic": "",
                           "outputs": rings_json(&outs), "rebuilt": rings_json(&re)}));
        }
    }
}

fn patch_event(tr: &mut Trace, c: &Conc, ctor: &str, patches: &[(i32, Vec<AP>)]) {
    pending(&json!({"call": "multipatch constructor", "ctor": ctor, "inputs": rings_json(patches)}));
    let a = AShape { t: 31, parts: patches.iter().map(|r| r.1.clone()).collect(), kinds: patches.iter().map(|r| r.0).collect(), bbox: [0; 8] };
    let r = guarded(|| match ctor {
        "new" => {
            let p = &patches[0];
            Shape::Multipatch(Multipatch::new(patch(p.0, p.1.iter().map(|q| PointZ::new(c.x(q[0]), c.x(q[1]), c.z(q[2]), c.z(q[3]))).collect())))
        }
        "macro" => {
            let p = &patches[0].1;
            let f = |i: usize| (c.x(p[i][0]), c.x(p[i][1]), c.z(p[i][2]), c.z(p[i][3]));
            let (a0, a1, a2) = (f(0), f(1), f(2));
            macro_rules! mp {
                ($k:ident) => {
                    shapefile::multipatch! { $k((a0.0, a0.1, a0.2, a0.3), (a1.0, a1.1, a1.2, a1.3), (a2.0, a2.1, a2.2, a2.3)) }
                };
            }
            Shape::Multipatch(match patches[0].0 {
                0 => mp!(TriangleStrip),
                1 => mp!(TriangleFan),
                2 => mp!(OuterRing),
                3 => mp!(InnerRing),
                4 => mp!(FirstRing),
                _ => mp!(Ring),
            })
        }
        _ => build(c, &a),
    });
    pending_done();
    match r {
        Err(p) => tr.emit(json!({"ev": "patches", "ctor": ctor, "inputs": rings_json(patches), "panic": p, "outputs": []})),
        Ok(s) => {
            let o = abstract_shape(c, &s);
            let outs: Vec<(i32, Vec<AP>)> = o.kinds.iter().copied().zip(o.parts.iter().cloned()).collect();
            tr.emit(json!({"ev": "patches", "ctor": ctor, "inputs": rings_json(patches), "panic": "", "outputs": rings_json(&outs)}));
        }
    }
}

/// all rings of n vertices on the 3x3 grid (ids 0..2), z/m filled per point type
fn grid_rings(n: usize) -> Vec<Vec<(i32, i32)>> {
    let mut out: Vec<Vec<(i32, i32)>> = vec![vec![]];
    for _ in 0..n {
        let mut nxt = vec![];
        for r in &out {
            for x in 0..3 {
                for y in 0..3 {
                    let mut q = r.clone();
                    q.push((x, y));
                    nxt.push(q);
                }
            }
        }
        out = nxt;
    }
    out
}

fn lift(pt: i32, r: &[(i32, i32)], vary: u8) -> Vec<AP> {
    // vary: 0 constant z/m; 1 the last vertex differs from the first in Z only; 2 in M only;
    // 3: the first vertex has m = +0.0 and the last m = -0.0 (equal as numbers: such a ring is closed); 4: likewise in Z
    let n = r.len();
    r.iter()
        .enumerate()
        .map(|(i, (x, y))| {
            let z = if pt == 15 { if vary == 4 { if i == n - 1 { NEGZ } else if i == 0 { 0 } else { 1 } } else if vary == 1 && i == n - 1 { 2 } else { 1 } } else { 0 };
            let m = if pt == 15 || pt == 25 { if vary == 3 { if i == n - 1 { NEGZ } else if i == 0 { 0 } else { 1 } } else if vary == 2 && i == n - 1 { 3 } else { 1 } } else { 0 };
            [*x - 1, *y - 1, z, m]
        })
        .collect()
}

pub fn run(a: &Args) {
    let prop = a.get("prop", "C16");
    let out = PathBuf::from(a.get("out", "work/rings"));
    std::fs::create_dir_all(&out).unwrap();
    let seed = a.num("seed", 1);
    let chunks = a.num("chunks", 8) as usize;
    let maxv = a.num("maxv", 4) as usize;
    let nrandom = a.num("random", 300) as usize;
    let mut r = Rng::new(seed.wrapping_mul(1618033));
    let mut traces: Vec<Trace> = vec![];
    let mut concs: Vec<Conc> = vec![];
    for ch in 0..chunks {
        // the last chunk uses arbitrary non-NaN doubles: closure and vertex preservation only
        let exact = ch + 1 < chunks || chunks == 1;
        // the exponent of the exact coordinates covers both extremes (areas of 2^-80 and 2^80)
        let kfix = match ch { 0 => Some(-40), 1 => Some(40), 2 => Some(-27), 3 => Some(0), _ => None };
        // the chunk before the last one: neighbouring doubles (ends of a ring one or two ulps apart are NOT equal)
        let c = if chunks >= 6 && ch + 2 == chunks { Conc::ulps(&mut r).with_negzero() } else { Conc::new_with(&mut r, exact && !(chunks >= 6 && ch + 2 == chunks), kfix, false).with_negzero() };
        let mut meta = c.meta();
        meta["prop"] = json!(prop);
        meta["seed"] = json!(seed);
        meta["family"] = json!("rings");
        traces.push(Trace::create(&out.join(format!("trace-{:03}.ndjson", ch)), meta));
        traces[ch].run(json!({"ev": "reset", "kind": "rings"}));
        concs.push(c);
    }
    let mut k = 0usize;
    let nexact = if chunks >= 6 { chunks - 2 } else if chunks > 1 { chunks - 1 } else { 1 };
    // 1. every ring of 1..maxv vertices on the grid x both roles x three point types
    for n in 1..=maxv {
        for ring in grid_rings(n) {
            for role in 0..2 {
                for &pt in &[5, 25, 15] {
                    let i = k % nexact;
                    k += 1;
                    let pts = lift(pt, &ring, 0);
                    let ctor = if n == 3 && k % 3 == 0 { "macro" } else if k % 2 == 0 { "new" } else { "with_rings" };
                    ring_event(&mut traces[i], &concs[i], pt, ctor, &[(role, pts)]);
                    // ends that differ in Z or M only (the ring is open)
                    if n >= 2 && ring[0] == ring[n - 1] && pt != 5 && k % 7 == 0 {
                        let v = if pt == 15 { 1 } else { 2 };
                        ring_event(&mut traces[i], &concs[i], pt, "with_rings", &[(role, lift(pt, &ring, v))]);
                        k += 1;
                    }
                    // ends that are equal as numbers and differ in their bits (+0.0 / -0.0): the ring is closed
                    if n >= 2 && ring[0] == ring[n - 1] && pt != 5 && k % 5 == 0 {
                        let v = if pt == 15 && k % 2 == 0 { 4 } else { 3 };
                        ring_event(&mut traces[i], &concs[i], pt, if k % 3 == 0 { "new" } else { "with_rings" }, &[(role, lift(pt, &ring, v))]);
                        k += 1;
                    }
                }
            }
        }
    }
    // 2. lists of rings with any declared roles; multipatches of the six kinds
    let pool: Vec<Vec<(i32, i32)>> = (1..=4).flat_map(grid_rings).collect();
    for _ in 0..nrandom {
        let i = k % chunks;
        k += 1;
        let pt = *r.pick(&[5, 25, 15]);
        let nr = 1 + r.below(4);
        let rings: Vec<(i32, Vec<AP>)> = (0..nr).map(|_| (r.below(2) as i32, { let q = pool[r.below(pool.len())].clone(); let v = r.below(5) as u8; lift(pt, &q, v) })).collect();
        ring_event(&mut traces[i], &concs[i], pt, "with_rings", &rings);
        // the same ring several times over (same role, other role, reversed): every one of them is kept
        {
            let q = pool[r.below(pool.len())].clone();
            let base = lift(pt, &q, 0);
            let mut rev = base.clone();
            rev.reverse();
            let (ra, rb) = (r.below(2) as i32, r.below(2) as i32);
            let dup: Vec<(i32, Vec<AP>)> = match r.below(4) {
                0 => vec![(ra, base.clone()), (ra, base.clone())],
                1 => vec![(ra, base.clone()), (ra, rev.clone()), (ra, base.clone())],
                2 => vec![(rb, base.clone()), (ra, base.clone()), (ra, base.clone()), (1 - ra, base.clone())],
                _ => vec![(ra, rev.clone()), (ra, rev.clone()), (ra, base.clone())],
            };
            ring_event(&mut traces[i], &concs[i], pt, "with_rings", &dup);
            k += 1;
        }
        // polygon! in struct form: two rings of four vertices, declared (outer, inner)
        {
            let g4 = grid_rings(4);
            let q0 = g4[r.below(g4.len())].clone();
            let q1 = g4[r.below(g4.len())].clone();
            let v = r.below(3) as u8;
            ring_event(&mut traces[i], &concs[i], pt, "macro4", &[(0, lift(pt, &q0, v)), (1, lift(pt, &q1, 0))]);
            k += 1;
        }
        let np = 1 + r.below(4);
        let patches: Vec<(i32, Vec<AP>)> = (0..np).map(|_| (r.below(6) as i32, { let q = pool[r.below(pool.len())].clone(); let v = r.below(5) as u8; lift(15, &q, v) })).collect();
        patch_event(&mut traces[i], &concs[i], "with_parts", &patches);
        let single = vec![(r.below(6) as i32, { let q = pool[r.below(pool.len())].clone(); lift(15, &q, 0) })];
        patch_event(&mut traces[i], &concs[i], "new", &single);
        let three = vec![(r.below(6) as i32, { let q = grid_rings(3)[r.below(729)].clone(); let v = r.below(2) as u8; lift(15, &q, v) })];
        patch_event(&mut traces[i], &concs[i], "macro", &three);
        k += 3;
    }
    // 2b. long rings (129..=600 vertices): a small grid ring whose vertices are repeated, so that few edges
    //     carry the whole area and they fall on any position, the middle and the quarters among them
    let nlong = a.num("long", 60) as usize;
    for j in 0..nlong {
        let i = k % nexact;
        k += 1;
        let pt = *r.pick(&[5, 25, 15]);
        let nv = 3 + r.below(2);
        let q = grid_rings(nv)[r.below(if nv == 3 { 729 } else { 6561 })].clone();
        let total = 129 + r.below(if j % 4 == 0 { 472 } else { 172 });
        // the positions where the ring moves on to its next vertex
        let mut cuts: Vec<usize> = (0..nv - 1).map(|_| 1 + r.below(total - 1)).collect();
        match j % 3 {
            0 => cuts[0] = total / 2 + r.below(2),
            1 => cuts[0] = if r.below(2) == 0 { total / 4 } else { total / 2 + (total - total / 2) / 2 },
            _ => {}
        }
        cuts.sort();
        let mut ring: Vec<(i32, i32)> = Vec::with_capacity(total + 1);
        let mut v = 0;
        for p in 0..total {
            while v < cuts.len() && p >= cuts[v] { v += 1; }
            ring.push(q[v.min(nv - 1)]);
        }
        if r.below(2) == 0 { ring.push(q[0]); }
        let role = r.below(2) as i32;
        let ctor = if r.below(2) == 0 { "new" } else { "with_rings" };
        ring_event(&mut traces[i], &concs[i], pt, ctor, &[(role, lift(pt, &ring, 0))]);
    }
    // 3. every ring kind x every grid ring of 1..3 vertices for the multipatch
    for n in 1..=3usize {
        for ring in grid_rings(n) {
            for kind in 0..6 {
                let i = k % chunks;
                k += 1;
                patch_event(&mut traces[i], &concs[i], "with_parts", &[(kind, lift(15, &ring, 0)), (5 - kind, lift(15, &ring, 1))]);
            }
        }
    }
    let mut files = vec![];
    let mut lines = 0;
    for t in traces {
        let (p, l, _) = t.finish();
        lines += l;
        files.push(p.to_string_lossy().to_string());
    }
    println!("{}", json!({"cases": k, "distinct": k, "lines": lines, "files": files}));
}
