//! Type codes (C19) and typed/generic agreement (C06).
use crate::cmd_codec::read_cursor_route;
use crate::rng::Rng;
use crate::shapes::*;
use crate::trace::*;
use crate::values::*;
use crate::for_type;
use serde_json::{json, Value};
use shapefile::record::HasShapeType;
use shapefile::*;
use std::io::Cursor;
use std::path::PathBuf;

fn all_types() -> Vec<ShapeType> {
    ALL_CODES.iter().map(|c| ShapeType::from(*c).expect("table code")).collect()
}

/// scan the whole 32-bit range with the real decoder; report maximal runs of equal validity
fn scan_runs(threads: usize) -> Vec<(i64, i64, bool, bool)> {
    // (lo, hi, valid, reencodes) -- `reencodes`: every valid value re-encodes to itself
    let total: i64 = 1i64 << 32;
    let per = total / threads as i64;
    let mut handles = vec![];
    for k in 0..threads as i64 {
        handles.push(std::thread::spawn(move || {
            let lo = i32::MIN as i64 + k * per;
            let hi = if k == threads as i64 - 1 { i32::MAX as i64 } else { lo + per - 1 };
            let mut runs: Vec<(i64, i64, bool, bool)> = vec![];
            let mut v = lo;
            while v <= hi {
                let d = ShapeType::from(v as i32);
                let valid = d.is_some();
                let re = d.map(|t| t as i32 as i64 == v).unwrap_or(true);
                match runs.last_mut() {
                    Some(r) if r.2 == valid && r.3 == re && r.1 + 1 == v && !valid => r.1 = v,
                    _ => runs.push((v, v, valid, re)),
                }
                v += 1;
            }
            runs
        }));
    }
    let mut all: Vec<(i64, i64, bool, bool)> = vec![];
    for h in handles {
        for r in h.join().unwrap() {
            match all.last_mut() {
                Some(l) if l.2 == r.2 && l.3 == r.3 && l.1 + 1 == r.0 && !r.2 => l.1 = r.1,
                _ => all.push(r),
            }
        }
    }
    all
}

fn header_with(code: i32) -> Vec<u8> {
    // a header written by the real writer (empty file), with the type word replaced
    let d = crate::io::LogDest::new();
    {
        let _w = ShapeWriter::new(d.clone());
    }
    let mut b = d.bytes();
    b[32..36].copy_from_slice(&code.to_le_bytes());
    b
}

fn record_with(code: i32) -> Vec<u8> {
    // a one-point file written by the real writer, with the record's type word replaced
    let d = crate::io::LogDest::new();
    {
        let mut w = ShapeWriter::new(d.clone());
        w.write_shape(&Point::new(1.0, 2.0)).unwrap();
    }
    let mut b = d.bytes();
    b[108..112].copy_from_slice(&code.to_le_bytes());
    b
}

fn record2_with(code: i32) -> Vec<u8> {
    // a file of one record that holds nothing but its type word (the way a null shape is stored)
    let mut b = header_with(1);
    b[24..28].copy_from_slice(&56i32.to_be_bytes());
    b.extend_from_slice(&1i32.to_be_bytes());
    b.extend_from_slice(&2i32.to_be_bytes());
    b.extend_from_slice(&code.to_le_bytes());
    b
}

fn route_result(kind: &str, code: i32) -> (String, i64) {
    let r = guarded(|| {
        if kind == "header" {
            let b = header_with(code);
            match shapefile::header::Header::read_from(&mut Cursor::new(b)) {
                Ok(h) => ("ok".to_string(), h.shape_type as i32 as i64),
                Err(e) => {
                    let j = err_json(&e);
                    (j["err"].as_str().unwrap().to_string(), j["code"].as_i64().unwrap_or(0))
                }
            }
        } else if kind == "shxheader" {
            // the header of the index file carries the code (the .shp one is a valid, empty point file)
            match ShapeReader::with_shx(Cursor::new(header_with(1)), Cursor::new(header_with(code))) {
                Ok(_) => ("ok".to_string(), code as i64),
                Err(e) => {
                    let j = err_json(&e);
                    (j["err"].as_str().unwrap().to_string(), j["code"].as_i64().unwrap_or(0))
                }
            }
        } else if kind == "typed" || kind == "typed2" {
            // the typed route (the file is read as Point records): full-size record / record of two words
            let b = if kind == "typed" { record_with(code) } else { record2_with(code) };
            match ShapeReader::new(Cursor::new(b)).and_then(|mut r| r.iter_shapes_as::<Point>().next().unwrap()) {
                Ok(_) => ("ok".to_string(), 1),
                Err(e) => {
                    let j = err_json(&e);
                    (j["err"].as_str().unwrap().to_string(), j["code"].as_i64().unwrap_or(0))
                }
            }
        } else {
            let mut b = if kind == "record2" { record2_with(code) } else { record_with(code) };
            if kind == "record#0" {
                b[100..104].copy_from_slice(&0i32.to_be_bytes());       // record number 0 (any number is legal: C03)
            }
            if kind == "record#-1" {
                b[100..104].copy_from_slice(&(-1i32).to_be_bytes());
            }
            match ShapeReader::new(Cursor::new(b)).and_then(|mut r| r.iter_shapes().next().unwrap()) {
                Ok(s) => ("ok".to_string(), variant_code(&s) as i64),
                Err(e) => {
                    let j = err_json(&e);
                    (j["err"].as_str().unwrap().to_string(), j["code"].as_i64().unwrap_or(0))
                }
            }
        }
    });
    r.unwrap_or(("panic".to_string(), 0))
}

pub fn run_c19(a: &Args, out: &PathBuf) -> Value {
    let seed = a.num("seed", 1);
    let nsample = a.num("samples", 200000) as usize;
    let full_routes = a.has("fullroutes");
    let mut tr = Trace::create(&out.join("trace-000.ndjson"), json!({"prop": "C19", "seed": seed, "family": "types",
        "fxy": {}, "fzm": {}, "exactxy": true}));
    tr.run(json!({"ev": "reset", "kind": "types"}));
    // 1. the 14 types: code, re-decoding, predicates, display name
    for t in all_types() {
        let code = t as i32;
        tr.emit(json!({"ev": "type", "code": code, "redecoded": ShapeType::from(code).map(|x| x as i32).unwrap_or(-999),
                       "name": format!("{}", t), "hasZ": t.has_z(), "hasM": t.has_m(), "multipart": t.is_multipart()}));
    }
    // 2. all 2^32 values through ShapeType::from, as maximal runs
    let runs = scan_runs(16);
    for (lo, hi, valid, re) in &runs {
        tr.emit(json!({"ev": "run", "lo": lo, "hi": hi, "valid": valid, "reencodes": re}));
    }
    tr.emit(json!({"ev": "runsEnd", "count": runs.len()}));
    // 3. values coming from a file: header type word and record type word.  Individual
    //    events for the interesting values, a summary for the bulk.
    let mut interesting: Vec<i32> = vec![i32::MIN, i32::MIN + 1, i32::MAX, i32::MAX - 1];
    for c in ALL_CODES.iter() {
        for d in -2..=2 {
            interesting.push(c + d);
        }
    }
    for k in 0..31 {
        interesting.push(1i32 << k);
        interesting.push((1i32 << k) + 1);
        interesting.push((1i32 << k) - 1);
        interesting.push(-(1i32 << k));
        interesting.push(c256(1 << k));
    }
    interesting.sort();
    interesting.dedup();
    for kind in ["header", "shxheader", "record", "record2", "typed", "typed2", "record#0", "record#-1"] {
        for &v in &interesting {
            let (res, code) = route_result(kind, v);
            tr.emit(json!({"ev": "route", "kind": kind, "value": v, "res": res, "code": code}));
        }
    }
    // bulk: the routes must agree with ShapeType::from on validity and carry the value
    let mut r = Rng::new(seed ^ 0xc19);
    for kind in ["header", "shxheader", "record", "record2", "typed", "typed2", "record#0", "record#-1"] {
        let mut tested = 0u64;
        let mut bad: Vec<i64> = vec![];
        let mut check = |v: i32, bad: &mut Vec<i64>| {
            let (res, code) = route_result(kind, v);
            let valid = ShapeType::from(v).is_some();
            // a valid code in a record of another layout may fail for other reasons; never as an invalid type
            let ok = if valid {
                if kind == "header" || kind == "shxheader" { res == "ok" && code == v as i64 } else { res != "invalid_type" && res != "panic" }
            } else {
                res == "invalid_type" && code == v as i64
            };
            if !ok && bad.len() < 10 {
                bad.push(v as i64);
            }
        };
        if full_routes && kind == "header" {
            // every 32-bit value through Header::read_from (thorough)
            let nthreads = 16i64;
            let per = (1i64 << 32) / nthreads;
            let mut hs = vec![];
            for k in 0..nthreads {
                hs.push(std::thread::spawn(move || {
                    crate::trace::quiet_panics();
                    let lo = i32::MIN as i64 + k * per;
                    let hi = if k == nthreads - 1 { i32::MAX as i64 } else { lo + per - 1 };
                    let mut b = header_with(0);
                    let mut bad: Vec<i64> = vec![];
                    let mut v = lo;
                    while v <= hi {
                        b[32..36].copy_from_slice(&(v as i32).to_le_bytes());
                        let valid = ShapeType::from(v as i32).is_some();
                        let ok = match shapefile::header::Header::read_from(&mut Cursor::new(&b[..])) {
                            Ok(h) => valid && h.shape_type as i32 as i64 == v,
                            Err(Error::InvalidShapeType(c)) => !valid && c as i64 == v,
                            Err(_) => false,
                        };
                        if !ok && bad.len() < 10 {
                            bad.push(v);
                        }
                        v += 1;
                    }
                    bad
                }));
            }
            for h in hs {
                bad.extend(h.join().unwrap());
            }
            tested += 1u64 << 32;
        }
        for _ in 0..nsample {
            let v = r.next() as u32 as i32;
            check(v, &mut bad);
            tested += 1;
        }
        tr.emit(json!({"ev": "routeBulk", "kind": kind, "tested": tested.to_string(), "disagreements": bad.len(), "first": bad}));
    }
    let (p, lines, _) = tr.finish();
    json!({"cases": 1u64 << 32, "distinct": (1u64 << 32) as u64, "lines": lines, "files": [p.to_string_lossy()]})
}

fn c256(x: i32) -> i32 {
    x.wrapping_mul(256).wrapping_add(31)
}

fn bytes_of(v: &Value) -> Vec<u8> {
    v.as_array().map(|a| a.iter().map(|x| x.as_u64().unwrap() as u8).collect()).unwrap_or_default()
}

fn conv_res<S>(r: Result<Vec<S>, Error>, c: &Conc) -> Value
where
    Shape: From<S>,
{
    match r {
        Ok(v) => json!({"ok": true, "n": v.len(), "requested": 0, "actual": 0, "err": "",
                        "items": v.into_iter().map(|s| abstract_shape(c, &Shape::from(s)).to_json()).collect::<Vec<_>>()}),
        Err(Error::MismatchShapeType { requested, actual }) => {
            json!({"ok": false, "n": 0, "requested": requested as i32, "actual": actual as i32, "err": "mismatch", "items": []})
        }
        Err(e) => json!({"ok": false, "n": 0, "requested": 0, "actual": 0, "err": err_json(&e)["err"], "items": []}),
    }
}

/// C06 on TLC-generated files whose records have arbitrary (mixed) types
pub fn run_c06(a: &Args, out: &PathBuf) -> Value {
    let chunks = a.num("chunks", 4) as usize;
    let casefile = a.get("casefile", "");
    let text = std::fs::read_to_string(&casefile).unwrap_or_else(|e| panic!("cannot read {}: {}", casefile, e));
    let mut lines = text.lines();
    let meta: Value = serde_json::from_str(lines.next().unwrap()).unwrap();
    let c = Conc::from_meta(&meta);
    let mut traces: Vec<Trace> = (0..chunks)
        .map(|ch| {
            let mut m = c.meta();
            m["prop"] = json!("C06");
            m["family"] = json!("types");
            Trace::create(&out.join(format!("trace-{:03}.ndjson", ch)), m)
        })
        .collect();
    // static identities, once
    traces[0].run(json!({"ev": "reset", "kind": "types"}));
    for &s in ALL_TYPES.iter() {
        let code = for_type!(s, S, { <S as HasShapeType>::shapetype() as i32 });
        traces[0].emit(json!({"ev": "statictype", "S": s, "code": code}));
    }
    // the complete Reader: generic read() against typed read_as::<S, Record>(), also when the .dbf holds one row more
    // than there are shapes and that row cannot be parsed (neither read needs it)
    {
        use crate::cmd_reader::{make_file, row_index};
        let mut r = crate::rng::Rng::new(a.num("seed", 1) ^ 0xc06);
        for (j, &t) in ALL_TYPES.iter().enumerate() {
            let n = 1 + r.below(3);
            let f = make_file(&c, &mut r, t, n, false);
            for extra in [false, true] {
                let mut dbf = f.dbf.clone();
                if extra && dbf.len() > 32 {
                    let rows = u32::from_le_bytes([dbf[4], dbf[5], dbf[6], dbf[7]]) + 1;
                    dbf[4..8].copy_from_slice(&rows.to_le_bytes());
                    let reclen = u16::from_le_bytes([dbf[10], dbf[11]]) as usize;
                    if dbf.last() == Some(&0x1a) { dbf.pop(); }
                    let mut row = vec![b' '];
                    row.extend(std::iter::repeat(b'x').take(reclen - 1));      // letters where a number is declared
                    dbf.extend_from_slice(&row);
                    dbf.push(0x1a);
                }
                let open = || -> Result<Reader<Cursor<Vec<u8>>, Cursor<Vec<u8>>>, Error> {
                    let sr = ShapeReader::with_shx(Cursor::new(f.shp.clone()), Cursor::new(f.shx.clone()))?;
                    Ok(Reader::new(sr, shapefile::dbase::Reader::new(Cursor::new(dbf.clone()))?))
                };
                let pairs = |v: Result<Result<Vec<(i32, i64)>, Error>, String>| match v {
                    Ok(Ok(p)) => json!({"err": "", "pairs": p.iter().map(|(a, b)| json!([a, b])).collect::<Vec<_>>()}),
                    Ok(Err(e)) => json!({"err": err_json(&e)["err"], "pairs": []}),
                    Err(_) => json!({"err": "panic", "pairs": []}),
                };
                let generic = pairs(guarded(|| open().and_then(|mut rd| rd.read()).map(|v| v.iter().map(|(s, rec)| (variant_code(s), row_index(rec))).collect())));
                let typed = pairs(guarded(|| for_type!(t, S, {
                    open().and_then(|mut rd| rd.read_as::<S, shapefile::dbase::Record>()).map(|v| v.into_iter().map(|(s, rec)| (variant_code(&Shape::from(s)), row_index(&rec))).collect())
                })));
                traces[j % chunks].run(json!({"ev": "typedpairs", "t": t, "n": n, "extraRow": extra, "generic": generic, "typed": typed}));
            }
        }
    }
    let mut k = 0usize;
    for line in lines {
        if line.trim().is_empty() {
            continue;
        }
        let case: Value = serde_json::from_str(line).unwrap();
        let i = k % chunks;
        k += 1;
        let shp = bytes_of(&case["shp"]);
        let types: Vec<i32> = case["types"].as_array().unwrap().iter().map(|x| x.as_i64().unwrap() as i32).collect();
        let n = types.len();
        // generic read and what each generic value says about itself
        let generic = read_cursor_route(&c, &shp, None, 0, true, false, n);
        let gshapes: Vec<Shape> = ShapeReader::new(Cursor::new(shp.clone())).and_then(|r| r.read()).unwrap_or_default();
        let said: Vec<i32> = gshapes.iter().map(|s| s.shapetype() as i32).collect();
        let variants: Vec<i32> = gshapes.iter().map(variant_code).collect();
        // conversion round trip of every generic value
        let mut ids = vec![];
        for s in &gshapes {
            let v = variant_code(s);
            if v == 0 {
                continue;
            }
            let orig = abstract_shape(&c, s);
            let back = for_type!(v, S, {
                match S::try_from(clone_shape(s)) {
                    Ok(x) => abstract_shape(&c, &Shape::from(x)).to_json(),
                    Err(_) => json!({"t": -1, "parts": [], "kinds": [], "box": [0, 0, 0, 0, 0, 0, 0, 0]}),
                }
            });
            ids.push(json!({"orig": orig.to_json(), "back": back}));
        }
        traces[i].run(json!({"ev": "typedfile", "types": types, "shp": case["shp"], "generic": generic,
                             "said": said, "variants": variants, "ids": ids}));
        for &s in ALL_TYPES.iter() {
            // typed read (collecting), typed iteration (items before the first error), generic-then-convert
            let typed = for_type!(s, S, { conv_res(ShapeReader::new(Cursor::new(shp.clone())).and_then(|r| r.read_as::<S>()), &c) });
            let titer = read_cursor_route(&c, &shp, None, s, false, false, n);
            let conv = for_type!(s, S, {
                let g = ShapeReader::new(Cursor::new(shp.clone())).and_then(|r| r.read());
                conv_res(g.and_then(convert_shapes_to_vec_of::<S>), &c)
            });
            traces[i].emit(json!({"ev": "typed", "S": s, "typed": typed, "iter": titer, "conv": conv}));
            // the same comparison on a reader that is not fresh: after seek(1) (with the index)
            if n >= 2 {
                let shx = bytes_of(&case["shx"]);
                let open = || ShapeReader::with_shx(Cursor::new(shp.clone()), Cursor::new(shx.clone())).and_then(|mut r| r.seek(1).map(|_| r));
                let typed2 = for_type!(s, S, { conv_res(open().and_then(|r| r.read_as::<S>()), &c) });
                let conv2 = for_type!(s, S, { conv_res(open().and_then(|r| r.read()).and_then(convert_shapes_to_vec_of::<S>), &c) });
                traces[i].emit(json!({"ev": "typedseek", "S": s, "k": 1, "typed": typed2, "conv": conv2}));
                // on a file whose header length is stale (0, or the 50 words of the placeholder) while the index lists
                // the records: whatever the two reads make of it, they make the same
                for (kk, stale) in [(-2i32, 50i32), (-3, 0)] {
                    let mut shp2 = shp.clone();
                    shp2[24..28].copy_from_slice(&stale.to_be_bytes());
                    let open = || ShapeReader::with_shx(Cursor::new(shp2.clone()), Cursor::new(shx.clone()));
                    let typed4 = for_type!(s, S, { conv_res(open().and_then(|r| r.read_as::<S>()), &c) });
                    let conv4 = for_type!(s, S, { conv_res(open().and_then(|r| r.read()).and_then(convert_shapes_to_vec_of::<S>), &c) });
                    traces[i].emit(json!({"ev": "typedseek", "S": s, "k": kk, "typed": typed4, "conv": conv4}));
                }
                // and through the by-path one-liners, with an index that lists the records in reverse order
                let dir = out.join(format!("tmp-types-{}", std::process::id()));
                let _ = std::fs::create_dir_all(&dir);
                let p = dir.join("f.shp");
                std::fs::write(&p, &shp).unwrap();
                std::fs::write(p.with_extension("shx"), bytes_of(&case["shxRev"])).unwrap();
                let typed3 = for_type!(s, S, { conv_res(shapefile::read_shapes_as::<_, S>(&p), &c) });
                let conv3 = for_type!(s, S, { conv_res(shapefile::read_shapes(&p).and_then(convert_shapes_to_vec_of::<S>), &c) });
                traces[i].emit(json!({"ev": "typedseek", "S": s, "k": -1, "typed": typed3, "conv": conv3}));
                let _ = std::fs::remove_dir_all(&dir);
            }
        }
    }
    let mut files = vec![];
    let mut nlines = 0;
    for t in traces {
        let (p, l, _) = t.finish();
        nlines += l;
        files.push(p.to_string_lossy().to_string());
    }
    json!({"cases": k * 13, "distinct": k * 13, "lines": nlines, "files": files})
}

pub fn run(a: &Args) {
    let prop = a.get("prop", "C19");
    let out = PathBuf::from(a.get("out", "work/types"));
    std::fs::create_dir_all(&out).unwrap();
    let v = if prop == "C19" { run_c19(a, &out) } else { run_c06(a, &out) };
    println!("{}", v);
}
