//! Damaged sources (C13): truncation at every length, a failing k-th read/seek, short reads.
use crate::cmd_codec::{read_reader, open_err};
use crate::cmd_reader::{make_file, TestFile};
use crate::io::*;
use crate::rng::Rng;
use crate::shapes::*;
use crate::trace::*;
use crate::values::*;
use crate::jbytes;
use serde_json::{json, Value};
use shapefile::*;
use std::path::PathBuf;

/// open (with or without index) over instrumented sources and traverse: sequential
/// generic iteration; returns the result record of cmd_codec::read_reader
pub fn traverse(c: &Conc, shp: LogSource, shx: Option<LogSource>, t: i32, random: bool, n: usize) -> Value {
    traverse_as(c, shp, shx, t, random, n, true)
}

/// `generic = false`: the typed entry points (iter_shapes_as::<S>, read_nth_shape_as::<S>) for the file's type
pub fn traverse_as(c: &Conc, shp: LogSource, shx: Option<LogSource>, t: i32, random: bool, n: usize, generic: bool) -> Value {
    let opened = guarded(|| match shx {
        Some(x) => ShapeReader::with_shx(shp, x),
        None => ShapeReader::new(shp),
    });
    match opened {
        Ok(Ok(r)) => read_reader(c, r, t, generic, random, n),
        Ok(Err(e)) => open_err(&e),
        Err(p) => json!({"items": [], "openErr": "", "err": "panic", "code": 0, "msg": p, "nonePastEnd": true}),
    }
}

/// the same file with null-shape records (12 bytes: number, length 2, type 0) spliced in before `at` and at the end;
/// the real writer cannot emit them, conformant files hold them (deleted features)
pub fn splice_nulls(f: &TestFile, at: usize) -> TestFile {
    let n = f.shapes.len();
    let entry = |i: usize| -> (usize, usize) {
        let o = 100 + 8 * i;
        (i32::from_be_bytes([f.shx[o], f.shx[o + 1], f.shx[o + 2], f.shx[o + 3]]) as usize * 2,
         i32::from_be_bytes([f.shx[o + 4], f.shx[o + 5], f.shx[o + 6], f.shx[o + 7]]) as usize * 2 + 8)
    };
    let null_rec = |num: i32| -> Vec<u8> { let mut v = vec![]; v.extend_from_slice(&num.to_be_bytes()); v.extend_from_slice(&2i32.to_be_bytes()); v.extend_from_slice(&0i32.to_le_bytes()); v };
    let mut recs: Vec<(Vec<u8>, AShape)> = vec![];
    for i in 0..n {
        if i == at {
            recs.push((null_rec(90 + i as i32), AShape::null()));
        }
        let (o, l) = entry(i);
        recs.push((f.shp[o..o + l].to_vec(), f.shapes[i].clone()));
    }
    recs.push((null_rec(99), AShape::null()));
    let mut shp = f.shp[..100].to_vec();
    let mut shx = f.shx[..100].to_vec();
    for (b, _) in &recs {
        shx.extend_from_slice(&((shp.len() / 2) as i32).to_be_bytes());
        shx.extend_from_slice(&(((b.len() - 8) / 2) as i32).to_be_bytes());
        shp.extend_from_slice(b);
    }
    let l = (shp.len() / 2) as i32;
    shp[24..28].copy_from_slice(&l.to_be_bytes());
    let lx = (shx.len() / 2) as i32;
    shx[24..28].copy_from_slice(&lx.to_be_bytes());
    TestFile { t: f.t, shapes: recs.into_iter().map(|x| x.1).collect(), shp, shx, dbf: vec![] }
}

pub fn file_event(f: &TestFile) -> Value {
    json!({"ev": "file", "t": f.t, "shapes": f.shapes.iter().map(|s| s.to_json()).collect::<Vec<_>>(),
           "shp": jbytes(&f.shp), "shx": jbytes(&f.shx)})
}

pub fn run(a: &Args) {
    let prop = a.get("prop", "C13");
    let out = PathBuf::from(a.get("out", "work/damage"));
    std::fs::create_dir_all(&out).unwrap();
    let seed = a.num("seed", 1);
    let chunks = a.num("chunks", 4) as usize;
    let ntypes = a.num("types", 13) as usize;
    let nfiles = a.num("files", 1) as usize;
    let step = a.num("step", 1) as usize; // truncation lengths: every `step`-th plus all record boundaries +-1
    let mut r = Rng::new(seed.wrapping_mul(424243));
    let mut files_out = vec![];
    let mut lines = 0usize;
    let mut cases = 0usize;
    let tmp = crate::cmd_codec::TmpDir::new(&out, "damage");
    for ch in 0..chunks {
        let c = Conc::new(&mut r, true);
        let mut meta = c.meta();
        meta["prop"] = json!(prop);
        meta["seed"] = json!(seed);
        meta["family"] = json!("damage");
        let mut tr = Trace::create(&out.join(format!("trace-{:03}.ndjson", ch)), meta);
        for ti in 0..ntypes {
            if ti % chunks != ch {
                continue;
            }
            let t = ALL_TYPES[(ti + seed as usize) % 13];
            for fi in 0..nfiles {
                let n = 2 + r.below(2);
                let f = make_file(&c, &mut r, t, n, false);
                // every other file holds null-shape records among the others (read generically: a typed read stops there)
                let has_null = (ti + fi) % 2 == 1;
                let f = if has_null { splice_nulls(&f, r.below(n)) } else { f };
                let n = f.shapes.len();
                let mut fe = file_event(&f);
                tr.run({
                    fe["kind"] = json!("damage");
                    fe
                });
                // 1. truncation of the .shp at every length (index intact / absent), and of the .shx
                let len = f.shp.len();
                for l in 0..=len {
                    let near_end = l + 3 >= len || l <= 104;
                    if step > 1 && l % step != 0 && !near_end {
                        continue;
                    }
                    for &with_idx in &[false, true] {
                        for &random in &[false, true] {
                            if random && (!with_idx || l % 4 != 0) {
                                continue;
                            }
                            // every other length through the typed entry points
                            let res = traverse_as(&c, LogSource::new(f.shp[..l].to_vec()),
                                                  if with_idx { Some(LogSource::new(f.shx.clone())) } else { None }, t, random, n, l % 2 == 0 || has_null);
                            let mut ev = json!({"ev": "trunc", "which": "shp", "len": l, "withIdx": with_idx, "random": random, "res": res});
                            // the same truncated bytes as a lone .shp file opened by path (every fourth length and around every
                            // record boundary): a path is not a licence to trust the file size more than the header
                            if !with_idx && !random && (l % 4 == 0 || near_end) {
                                let generic = l % 2 == 0 || has_null;
                                let p = crate::cmd_codec::path_variant(&tmp.0, "t", l);
                                let _ = std::fs::remove_file(p.with_extension("shx"));
                                let _ = std::fs::write(&p, &f.shp[..l]);
                                ev["byPath"] = crate::cmd_codec::read_path_route(&c, &p, t, generic, false, n, false);
                                let _ = std::fs::remove_file(&p);
                            }
                            tr.emit(ev);
                            cases += 1;
                        }
                    }
                }
                for l in 0..=f.shx.len() {
                    let res = traverse(&c, LogSource::new(f.shp.clone()), Some(LogSource::new(f.shx[..l].to_vec())), t, false, n);
                    tr.emit(json!({"ev": "trunc", "which": "shx", "len": l, "withIdx": true, "random": false, "res": res}));
                    cases += 1;
                }
                // 2. the k-th read or seek of a full traversal fails
                for &with_idx in &[false, true] {
                    for &random in &[false, true] {
                        if random && !with_idx {
                            continue;
                        }
                        // dry run: count the calls
                        let s0 = LogSource::new(f.shp.clone());
                        let x0 = LogSource::new(f.shx.clone());
                        let _ = traverse(&c, s0.clone(), if with_idx { Some(x0.clone()) } else { None }, t, random, n);
                        let (ns, nx) = (s0.calls(), x0.calls());
                        for k in 0..ns + 1 {
                            let s = LogSource::new(f.shp.clone());
                            s.set_fault(Some(k), false);
                            let res = traverse(&c, s.clone(), if with_idx { Some(LogSource::new(f.shx.clone())) } else { None }, t, random, n);
                            tr.emit(json!({"ev": "srcfault", "which": "shp", "k": k, "withIdx": with_idx, "random": random,
                                           "fired": s.faults_fired() > 0, "res": res}));
                            cases += 1;
                            if !s.fault_on_seek() && s.faults_fired() > 0 {
                                // the same failing read under another error kind (the kind must not matter)
                                let kinds = [std::io::ErrorKind::InvalidData, std::io::ErrorKind::PermissionDenied, std::io::ErrorKind::TimedOut,
                                             std::io::ErrorKind::WouldBlock, std::io::ErrorKind::InvalidInput, std::io::ErrorKind::BrokenPipe];
                                let s = LogSource::new(f.shp.clone());
                                s.set_fault(Some(k), false);
                                s.set_read_kind(kinds[k % kinds.len()]);
                                let res = traverse(&c, s.clone(), if with_idx { Some(LogSource::new(f.shx.clone())) } else { None }, t, random, n);
                                tr.emit(json!({"ev": "srcfault", "which": "shp", "k": k, "withIdx": with_idx, "random": random,
                                               "fired": s.faults_fired() > 0, "res": res, "kind": format!("{:?}", kinds[k % kinds.len()])}));
                                cases += 1;
                            }
                            if s.fault_on_seek() {
                                // the same failing seek, reported the way EINTR is
                                let s = LogSource::new(f.shp.clone());
                                s.set_fault(Some(k), false);
                                s.set_interrupted(true);
                                let res = traverse(&c, s.clone(), if with_idx { Some(LogSource::new(f.shx.clone())) } else { None }, t, random, n);
                                tr.emit(json!({"ev": "srcfault", "which": "shp", "k": k, "withIdx": with_idx, "random": random,
                                               "fired": s.faults_fired() > 0, "res": res, "interrupted": true}));
                                cases += 1;
                            }
                        }
                        if with_idx && !random {
                            for k in 0..nx + 1 {
                                let x = LogSource::new(f.shx.clone());
                                x.set_fault(Some(k), false);
                                let res = traverse(&c, LogSource::new(f.shp.clone()), Some(x.clone()), t, random, n);
                                tr.emit(json!({"ev": "srcfault", "which": "shx", "k": k, "withIdx": true, "random": false,
                                               "fired": x.faults_fired() > 0, "res": res}));
                                cases += 1;
                            }
                        }
                    }
                }
                // 3. short reads: every chunk size 1..9 and random schedules
                for &with_idx in &[false, true] {
                    for chunk in 1..=9usize {
                        let s = LogSource::new(f.shp.clone());
                        s.set_chunk(chunk);
                        let x = LogSource::new(f.shx.clone());
                        x.set_chunk(chunk);
                        let res = traverse(&c, s, if with_idx { Some(x) } else { None }, t, false, n);
                        tr.emit(json!({"ev": "shortread", "schedule": [chunk], "withIdx": with_idx, "res": res}));
                        cases += 1;
                    }
                    for _ in 0..6 {
                        let sched: Vec<usize> = (0..1 + r.below(7)).map(|_| 1 + r.below(13)).collect();
                        let s = LogSource::new(f.shp.clone());
                        s.set_schedule(sched.clone());
                        let x = LogSource::new(f.shx.clone());
                        x.set_schedule(sched.clone());
                        let res = traverse(&c, s, if with_idx { Some(x) } else { None }, t, with_idx && r.chance(1, 2), n);
                        tr.emit(json!({"ev": "shortread", "schedule": sched, "withIdx": with_idx, "res": res}));
                        cases += 1;
                    }
                }
            }
        }
        let (p, l, _) = tr.finish();
        lines += l;
        files_out.push(p.to_string_lossy().to_string());
    }
    println!("{}", json!({"cases": cases, "distinct": cases, "lines": lines, "files": files_out}));
}
