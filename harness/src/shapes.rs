//! Abstract shapes (the specification's [t, parts, kinds, box] over value ids) and
//! their translation to and from the library's 13 concrete types, through public
//! constructors and accessors only.
use crate::values::Conc;
use serde_json::{json, Value};
use shapefile::record::{GenericBBox, PolygonRing};
use shapefile::*;

pub const ALL_TYPES: [i32; 13] = [1, 3, 5, 8, 11, 13, 15, 18, 21, 23, 25, 28, 31];
pub const ALL_CODES: [i32; 14] = [0, 1, 3, 5, 8, 11, 13, 15, 18, 21, 23, 25, 28, 31];

pub type APoint = [i32; 4];

#[derive(Clone, Debug, PartialEq, Eq, Hash)]
pub struct AShape {
    pub t: i32,
    pub parts: Vec<Vec<APoint>>,
    pub kinds: Vec<i32>,
    pub bbox: [i32; 8],
}

pub fn family(t: i32) -> &'static str {
    match t {
        0 => "null",
        1 | 11 | 21 => "point",
        8 | 18 | 28 => "multipoint",
        3 | 13 | 23 => "polyline",
        5 | 15 | 25 => "polygon",
        31 => "multipatch",
        _ => panic!("bad type {}", t),
    }
}
pub fn stores_z(t: i32) -> bool {
    matches!(t, 11 | 13 | 15 | 18 | 31)
}
pub fn stores_m(t: i32) -> bool {
    matches!(t, 11 | 13 | 15 | 18 | 21 | 23 | 25 | 28 | 31)
}
pub fn type_code(t: ShapeType) -> i32 {
    t as i32
}

impl AShape {
    pub fn null() -> AShape {
        AShape { t: 0, parts: vec![], kinds: vec![], bbox: [0; 8] }
    }
    pub fn npoints(&self) -> usize {
        self.parts.iter().map(|p| p.len()).sum()
    }
    pub fn to_json(&self) -> Value {
        json!({
            "t": self.t,
            "parts": self.parts.iter().map(|p| p.iter().map(|q| q.to_vec()).collect::<Vec<_>>()).collect::<Vec<_>>(),
            "kinds": self.kinds,
            "box": self.bbox.to_vec(),
        })
    }
    pub fn from_json(v: &Value) -> AShape {
        let t = v["t"].as_i64().unwrap() as i32;
        let parts = v["parts"]
            .as_array()
            .map(|ps| {
                ps.iter()
                    .map(|p| {
                        p.as_array()
                            .unwrap()
                            .iter()
                            .map(|q| {
                                let a = q.as_array().unwrap();
                                [
                                    a[0].as_i64().unwrap() as i32,
                                    a[1].as_i64().unwrap() as i32,
                                    a[2].as_i64().unwrap() as i32,
                                    a[3].as_i64().unwrap() as i32,
                                ]
                            })
                            .collect()
                    })
                    .collect()
            })
            .unwrap_or_default();
        let kinds = v["kinds"]
            .as_array()
            .map(|k| k.iter().map(|x| x.as_i64().unwrap() as i32).collect())
            .unwrap_or_default();
        let mut bbox = [0i32; 8];
        if let Some(b) = v["box"].as_array() {
            for (i, x) in b.iter().enumerate().take(8) {
                bbox[i] = x.as_i64().unwrap() as i32;
            }
        }
        AShape { t, parts, kinds, bbox }
    }
}

fn p2(c: &Conc, p: &APoint) -> Point {
    Point::new(c.x(p[0]), c.x(p[1]))
}
fn pm(c: &Conc, p: &APoint) -> PointM {
    PointM::new(c.x(p[0]), c.x(p[1]), c.z(p[3]))
}
fn pz(c: &Conc, p: &APoint) -> PointZ {
    PointZ::new(c.x(p[0]), c.x(p[1]), c.z(p[2]), c.z(p[3]))
}

fn ring<P>(role: i32, pts: Vec<P>) -> PolygonRing<P> {
    if role == 0 {
        PolygonRing::Outer(pts)
    } else {
        PolygonRing::Inner(pts)
    }
}

pub fn patch(kind: i32, pts: Vec<PointZ>) -> Patch {
    match kind {
        0 => Patch::TriangleStrip(pts),
        1 => Patch::TriangleFan(pts),
        2 => Patch::OuterRing(pts),
        3 => Patch::InnerRing(pts),
        4 => Patch::FirstRing(pts),
        5 => Patch::Ring(pts),
        _ => panic!("bad patch kind"),
    }
}
pub fn patch_kind(p: &Patch) -> i32 {
    match p {
        Patch::TriangleStrip(_) => 0,
        Patch::TriangleFan(_) => 1,
        Patch::OuterRing(_) => 2,
        Patch::InnerRing(_) => 3,
        Patch::FirstRing(_) => 4,
        Patch::Ring(_) => 5,
    }
}

/// Build the library value through the public constructors.  The abstract box is
/// ignored: the constructors compute their own.  May panic where the constructors do
/// (empty multipoint, polyline part < 2 points, ...): callers generate valid input.
pub fn build(c: &Conc, a: &AShape) -> Shape {
    match a.t {
        0 => Shape::NullShape,
        1 => Shape::Point(p2(c, &a.parts[0][0])),
        21 => Shape::PointM(pm(c, &a.parts[0][0])),
        11 => Shape::PointZ(pz(c, &a.parts[0][0])),
        8 => Shape::Multipoint(Multipoint::new(a.parts[0].iter().map(|p| p2(c, p)).collect())),
        28 => Shape::MultipointM(MultipointM::new(a.parts[0].iter().map(|p| pm(c, p)).collect())),
        18 => Shape::MultipointZ(MultipointZ::new(a.parts[0].iter().map(|p| pz(c, p)).collect())),
        3 => Shape::Polyline(Polyline::with_parts(
            a.parts.iter().map(|part| part.iter().map(|p| p2(c, p)).collect()).collect(),
        )),
        23 => Shape::PolylineM(PolylineM::with_parts(
            a.parts.iter().map(|part| part.iter().map(|p| pm(c, p)).collect()).collect(),
        )),
        13 => Shape::PolylineZ(PolylineZ::with_parts(
            a.parts.iter().map(|part| part.iter().map(|p| pz(c, p)).collect()).collect(),
        )),
        5 => Shape::Polygon(Polygon::with_rings(
            a.parts
                .iter()
                .zip(a.kinds.iter())
                .map(|(part, k)| ring(*k, part.iter().map(|p| p2(c, p)).collect()))
                .collect(),
        )),
        25 => Shape::PolygonM(PolygonM::with_rings(
            a.parts
                .iter()
                .zip(a.kinds.iter())
                .map(|(part, k)| ring(*k, part.iter().map(|p| pm(c, p)).collect()))
                .collect(),
        )),
        15 => Shape::PolygonZ(PolygonZ::with_rings(
            a.parts
                .iter()
                .zip(a.kinds.iter())
                .map(|(part, k)| ring(*k, part.iter().map(|p| pz(c, p)).collect()))
                .collect(),
        )),
        31 => Shape::Multipatch(Multipatch::with_parts(
            a.parts
                .iter()
                .zip(a.kinds.iter())
                .map(|(part, k)| patch(*k, part.iter().map(|p| pz(c, p)).collect()))
                .collect(),
        )),
        _ => panic!("bad type"),
    }
}

fn a2(c: &Conc, p: &Point) -> APoint {
    [c.ax(p.x), c.ax(p.y), 0, 0]
}
fn am(c: &Conc, p: &PointM) -> APoint {
    [c.ax(p.x), c.ax(p.y), 0, c.az(p.m)]
}
fn az(c: &Conc, p: &PointZ) -> APoint {
    [c.ax(p.x), c.ax(p.y), c.az(p.z), c.az(p.m)]
}
fn b2(c: &Conc, b: &GenericBBox<Point>) -> [i32; 8] {
    [c.ax(b.min.x), c.ax(b.min.y), c.ax(b.max.x), c.ax(b.max.y), 0, 0, 0, 0]
}
fn bm(c: &Conc, b: &GenericBBox<PointM>) -> [i32; 8] {
    [c.ax(b.min.x), c.ax(b.min.y), c.ax(b.max.x), c.ax(b.max.y), 0, 0, c.az(b.min.m), c.az(b.max.m)]
}
fn bz(c: &Conc, b: &GenericBBox<PointZ>) -> [i32; 8] {
    [
        c.ax(b.min.x), c.ax(b.min.y), c.ax(b.max.x), c.ax(b.max.y),
        c.az(b.min.z), c.az(b.max.z), c.az(b.min.m), c.az(b.max.m),
    ]
}

fn rings_abs<P>(rings: &[PolygonRing<P>], f: impl Fn(&P) -> APoint) -> (Vec<Vec<APoint>>, Vec<i32>) {
    let mut parts = vec![];
    let mut kinds = vec![];
    for r in rings {
        match r {
            PolygonRing::Outer(p) => {
                kinds.push(0);
                parts.push(p.iter().map(&f).collect());
            }
            PolygonRing::Inner(p) => {
                kinds.push(1);
                parts.push(p.iter().map(&f).collect());
            }
        }
    }
    (parts, kinds)
}

/// Abstract a library value through its public accessors.
pub fn abstract_shape(c: &Conc, s: &Shape) -> AShape {
    match s {
        Shape::NullShape => AShape::null(),
        Shape::Point(p) => AShape { t: 1, parts: vec![vec![a2(c, p)]], kinds: vec![], bbox: [0; 8] },
        Shape::PointM(p) => AShape { t: 21, parts: vec![vec![am(c, p)]], kinds: vec![], bbox: [0; 8] },
        Shape::PointZ(p) => AShape { t: 11, parts: vec![vec![az(c, p)]], kinds: vec![], bbox: [0; 8] },
        Shape::Multipoint(m) => AShape {
            t: 8,
            parts: vec![m.points().iter().map(|p| a2(c, p)).collect()],
            kinds: vec![],
            bbox: b2(c, m.bbox()),
        },
        Shape::MultipointM(m) => AShape {
            t: 28,
            parts: vec![m.points().iter().map(|p| am(c, p)).collect()],
            kinds: vec![],
            bbox: bm(c, m.bbox()),
        },
        Shape::MultipointZ(m) => AShape {
            t: 18,
            parts: vec![m.points().iter().map(|p| az(c, p)).collect()],
            kinds: vec![],
            bbox: bz(c, m.bbox()),
        },
        Shape::Polyline(l) => AShape {
            t: 3,
            parts: l.parts().iter().map(|part| part.iter().map(|p| a2(c, p)).collect()).collect(),
            kinds: vec![],
            bbox: b2(c, l.bbox()),
        },
        Shape::PolylineM(l) => AShape {
            t: 23,
            parts: l.parts().iter().map(|part| part.iter().map(|p| am(c, p)).collect()).collect(),
            kinds: vec![],
            bbox: bm(c, l.bbox()),
        },
        Shape::PolylineZ(l) => AShape {
            t: 13,
            parts: l.parts().iter().map(|part| part.iter().map(|p| az(c, p)).collect()).collect(),
            kinds: vec![],
            bbox: bz(c, l.bbox()),
        },
        Shape::Polygon(g) => {
            let (parts, kinds) = rings_abs(g.rings(), |p| a2(c, p));
            AShape { t: 5, parts, kinds, bbox: b2(c, g.bbox()) }
        }
        Shape::PolygonM(g) => {
            let (parts, kinds) = rings_abs(g.rings(), |p| am(c, p));
            AShape { t: 25, parts, kinds, bbox: bm(c, g.bbox()) }
        }
        Shape::PolygonZ(g) => {
            let (parts, kinds) = rings_abs(g.rings(), |p| az(c, p));
            AShape { t: 15, parts, kinds, bbox: bz(c, g.bbox()) }
        }
        Shape::Multipatch(m) => AShape {
            t: 31,
            parts: m.patches().iter().map(|pa| pa.points().iter().map(|p| az(c, p)).collect()).collect(),
            kinds: m.patches().iter().map(patch_kind).collect(),
            bbox: bz(c, m.bbox()),
        },
    }
}

/// the code of the variant (independent of Shape::shapetype(), which C06 examines)
pub fn variant_code(s: &Shape) -> i32 {
    match s {
        Shape::NullShape => 0,
        Shape::Point(_) => 1,
        Shape::Polyline(_) => 3,
        Shape::Polygon(_) => 5,
        Shape::Multipoint(_) => 8,
        Shape::PointZ(_) => 11,
        Shape::PolylineZ(_) => 13,
        Shape::PolygonZ(_) => 15,
        Shape::MultipointZ(_) => 18,
        Shape::PointM(_) => 21,
        Shape::PolylineM(_) => 23,
        Shape::PolygonM(_) => 25,
        Shape::MultipointM(_) => 28,
        Shape::Multipatch(_) => 31,
    }
}

/// run `$body` with `$S` bound to the concrete Rust type of code `$code`
#[macro_export]
macro_rules! for_type {
    ($code:expr, $S:ident, $body:block) => {
        match $code {
            1 => { type $S = shapefile::Point; $body }
            3 => { type $S = shapefile::Polyline; $body }
            5 => { type $S = shapefile::Polygon; $body }
            8 => { type $S = shapefile::Multipoint; $body }
            11 => { type $S = shapefile::PointZ; $body }
            13 => { type $S = shapefile::PolylineZ; $body }
            15 => { type $S = shapefile::PolygonZ; $body }
            18 => { type $S = shapefile::MultipointZ; $body }
            21 => { type $S = shapefile::PointM; $body }
            23 => { type $S = shapefile::PolylineM; $body }
            25 => { type $S = shapefile::PolygonM; $body }
            28 => { type $S = shapefile::MultipointM; $body }
            31 => { type $S = shapefile::Multipatch; $body }
            c => panic!("for_type: no concrete type for code {}", c),
        }
    };
}

/// run `$body` with `$s` bound to the concrete value inside a generic Shape
/// (NullShape has no concrete value: `$null` is evaluated instead)
#[macro_export]
macro_rules! with_inner {
    ($shape:expr, $s:ident => $body:expr, $null:expr) => {
        match $shape {
            shapefile::Shape::NullShape => $null,
            shapefile::Shape::Point($s) => $body,
            shapefile::Shape::PointM($s) => $body,
            shapefile::Shape::PointZ($s) => $body,
            shapefile::Shape::Polyline($s) => $body,
            shapefile::Shape::PolylineM($s) => $body,
            shapefile::Shape::PolylineZ($s) => $body,
            shapefile::Shape::Polygon($s) => $body,
            shapefile::Shape::PolygonM($s) => $body,
            shapefile::Shape::PolygonZ($s) => $body,
            shapefile::Shape::Multipoint($s) => $body,
            shapefile::Shape::MultipointM($s) => $body,
            shapefile::Shape::MultipointZ($s) => $body,
            shapefile::Shape::Multipatch($s) => $body,
        }
    };
}

/// error -> JSON {"err": kind, ...}
pub fn err_json(e: &Error) -> Value {
    match e {
        Error::IoError(io) => {
            let injected = io.get_ref().map(|r| r.to_string().contains("INJECTED")).unwrap_or(false)
                || io.to_string().contains("INJECTED");
            json!({"err": if injected { "io_injected" } else { "io" }, "code": 0, "kind": format!("{:?}", io.kind())})
        }
        Error::InvalidFileCode(c) => json!({"err": "invalid_file_code", "code": c}),
        Error::InvalidShapeType(c) => json!({"err": "invalid_type", "code": c}),
        Error::InvalidPatchType(c) => json!({"err": "invalid_patch", "code": c}),
        Error::MismatchShapeType { requested, actual } => {
            json!({"err": "mismatch", "code": *actual as i32, "requested": *requested as i32, "actual": *actual as i32})
        }
        Error::InvalidShapeRecordSize => json!({"err": "invalid_size", "code": 0}),
        Error::DbaseError(d) => json!({"err": "dbase", "code": 0, "msg": format!("{:?}", d)}),
        Error::MissingDbf => json!({"err": "missing_dbf", "code": 0}),
        Error::MissingIndexFile => json!({"err": "missing_index", "code": 0}),
    }
}

/// `Shape` is not `Clone`; its concrete payloads are
pub fn clone_shape(s: &Shape) -> Shape {
    with_inner!(s, x => Shape::from(x.clone()), Shape::NullShape)
}
